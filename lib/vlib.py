"""Shared machinery for /verif/check: building the harness, running TLC (model checking, behaviour
export, trace validation), caching spec-only results, evidence files, known findings, verdicts."""
import gzip
import hashlib
import json
import os
import re
import shutil
import subprocess
import sys
import time

ROOT = os.path.dirname(os.path.dirname(os.path.abspath(__file__)))
WORK = os.path.join(ROOT, ".work")
SPEC = os.path.join(ROOT, "spec")
HARNESS = os.path.join(ROOT, "harness")
CORPUS_DIR = os.path.join(ROOT, "corpus")
BIN = os.path.join(HARNESS, "target", "release")
EVID = os.path.join(ROOT, "evidence")
REPLAYS = os.path.join(ROOT, "replays")
REPO = "/repo"
TLA_JAR = "/opt/veriftools/tla/tla2tools.jar"

TRACE_JAVA_OPTS = "-Xss1g -Dtlc2.tool.queue.IStateQueue=StateDeque"


class ToolError(Exception):
    pass


def log(*a):
    print(*a, file=sys.stderr, flush=True)


def ensure_dirs():
    for d in (WORK, EVID, REPLAYS, os.path.join(WORK, "cache"), os.path.join(WORK, "tmp")):
        os.makedirs(d, exist_ok=True)


def sha(*parts):
    h = hashlib.sha256()
    for p in parts:
        if isinstance(p, str):
            p = p.encode()
        h.update(p)
        h.update(b"\0")
    return h.hexdigest()[:20]


def spec_hash(files, extra=""):
    h = hashlib.sha256()
    for f in sorted(files):
        with open(os.path.join(SPEC, f), "rb") as fh:
            h.update(f.encode() + b"\0" + fh.read() + b"\0")
    h.update(extra.encode())
    return h.hexdigest()[:20]


def all_spec_files():
    return [f for f in os.listdir(SPEC) if f.endswith(".tla") or f.endswith(".cfg")]


def repo_hash():
    h = hashlib.sha256()
    base = os.path.join(REPO, "chitchat")
    for dp, dn, fn in sorted(os.walk(os.path.join(base, "src"))):
        dn.sort()
        for f in sorted(fn):
            p = os.path.join(dp, f)
            with open(p, "rb") as fh:
                h.update(p.encode() + b"\0" + fh.read())
    for f in ("Cargo.toml",):
        with open(os.path.join(base, f), "rb") as fh:
            h.update(fh.read())
    return h.hexdigest()[:20]


_built = False


def build_harness():
    """Rebuilds the harness against /repo's current working tree (cargo path dependency)."""
    global _built
    if _built:
        return
    ensure_dirs()
    lock = os.path.join(HARNESS, "Cargo.lock")
    if not os.path.exists(lock):
        shutil.copy(os.path.join(REPO, "Cargo.lock"), lock)
    env = dict(os.environ, CARGO_NET_OFFLINE="true", RUSTUP_TOOLCHAIN="1.88.0")
    t0 = time.time()
    p = subprocess.run(["cargo", "build", "--release", "--offline"], cwd=HARNESS, env=env,
                       stdout=subprocess.PIPE, stderr=subprocess.STDOUT, text=True)
    if p.returncode != 0:
        log(p.stdout[-4000:])
        raise ToolError("cargo build of the harness failed")
    log(f"[build] harness ok in {time.time() - t0:.1f}s")
    _built = True


def harness_bin(name):
    return os.path.join(BIN, name)


# --------------------------------------------------------------------------- TLC

STATS_RE = re.compile(r"([\d,]+) states generated, ([\d,]+) distinct states found")


def parse_tlc(text):
    """Extracts counts and error markers from TLC's output."""
    r = {"generated": 0, "distinct": 0, "errors": [], "ok": False, "depth": 0}
    for m in STATS_RE.finditer(text):
        r["generated"] = int(m.group(1).replace(",", ""))
        r["distinct"] = int(m.group(2).replace(",", ""))
    m = re.search(r"depth of the complete state graph search is (\d+)", text)
    if m:
        r["depth"] = int(m.group(1))
    for line in text.splitlines():
        if line.startswith("Error:") or "is violated" in line or "TRACE-REJECTED" in line:
            r["errors"].append(line.strip()[:1500])
    r["ok"] = ("Model checking completed. No error has been found." in text
               or "Finished in" in text) and not r["errors"]
    return r


def tlc_cmd(module, cfg, workers, metadir, extra=None):
    cmd = ["tlc", "-workers", str(workers), "-metadir", metadir, "-cleanup", "-noGenerateSpecTE",
           "-config", cfg if os.path.isabs(cfg) else os.path.join(SPEC, cfg)]
    if extra:
        cmd += extra
    cmd.append(os.path.join(SPEC, module))
    return cmd


def run_tlc(module, cfg, workers=8, timeout=1800, extra=None, env=None, keep_edges=None,
            heap=None):
    """Runs TLC to completion. Lines starting with "EDGE (exported behaviours) are diverted to the
    gzip file `keep_edges` (if given) instead of being kept in memory. Returns (parsed, text)."""
    ensure_dirs()
    metadir = os.path.join(WORK, "tmp", "md_" + sha(module, cfg, str(os.getpid()), str(time.time())))
    e = dict(os.environ)
    if env:
        e.update(env)
    if heap:
        e["JAVA_TOOL_OPTIONS"] = (e.get("JAVA_TOOL_OPTIONS", "") + f" -Xmx{heap}").strip()
    cmd = ["timeout", str(timeout)] + tlc_cmd(module, cfg, workers, metadir, extra)
    t0 = time.time()
    p = subprocess.Popen(cmd, cwd=os.path.join(WORK, "tmp"), env=e, stdout=subprocess.PIPE,
                         stderr=subprocess.STDOUT, text=True, errors="replace")
    keep = []
    nedges = 0
    gz = gzip.open(keep_edges + ".part", "wt") if keep_edges else None
    for line in p.stdout:
        if line.startswith('"EDGE '):
            nedges += 1
            if gz:
                gz.write(line)
        elif line.startswith("Linting of module"):
            continue
        else:
            keep.append(line)
    p.wait()
    if gz:
        gz.close()
    shutil.rmtree(metadir, ignore_errors=True)
    text = "".join(keep)
    r = parse_tlc(text)
    r["wall_s"] = round(time.time() - t0, 2)
    r["edges"] = nedges
    r["rc"] = p.returncode
    if p.returncode == 124:
        if keep_edges and os.path.exists(keep_edges + ".part"):
            os.remove(keep_edges + ".part")
        raise ToolError(f"TLC timed out after {timeout}s on {module}/{cfg}")
    if keep_edges:
        os.replace(keep_edges + ".part", keep_edges)
    return r, text


def _to_corpus(cdir, kdir, name):
    import shutil
    for old in os.listdir(CORPUS_DIR) if os.path.isdir(CORPUS_DIR) else []:
        if old.startswith(name + "_"):
            shutil.rmtree(os.path.join(CORPUS_DIR, old))
    os.makedirs(kdir, exist_ok=True)
    for f in ("meta.json", "edges.gz", "tlc.out"):
        if os.path.exists(os.path.join(cdir, f)):
            shutil.copy(os.path.join(cdir, f), os.path.join(kdir, f))


def cached_model_run(name, module, cfg, files, workers=1, timeout=3600, export=True, heap=None,
                     extra=None, corpus=False):
    """Model-checks `module` with `cfg` (spec-only result, cached by the hash of the spec files).
    With export=True the behaviours printed by the EmitEdge action constraint are stored gzipped.
    Returns dict(stats..., edges_file)."""
    ensure_dirs()
    if os.path.isabs(cfg):
        with open(cfg) as fh:
            key = spec_hash(files, extra=name + str(extra) + fh.read())
    else:
        key = spec_hash(files + [cfg], extra=name + str(extra))
    cdir = os.path.join(WORK, "cache", f"{name}_{key}")
    meta = os.path.join(cdir, "meta.json")
    edges = os.path.join(cdir, "edges.gz")
    kdir = os.path.join(CORPUS_DIR, f"{name}_{key}")
    if os.path.exists(meta):
        with open(meta) as fh:
            m = json.load(fh)
        m["cached"] = True
        m["edges_file"] = edges if export else None
        if corpus and os.environ.get("VERIF_WRITE_CORPUS") and not os.path.exists(os.path.join(kdir, "meta.json")):
            _to_corpus(cdir, kdir, name)
        return m
    # committed corpus: TLC's result and focused export for a big configuration, stored under the hash of the
    # specification files and the cfg that produced it (a changed spec or cfg misses and TLC runs again)
    if corpus and os.path.exists(os.path.join(kdir, "meta.json")):
        with open(os.path.join(kdir, "meta.json")) as fh:
            m = json.load(fh)
        m["cached"] = True
        m["from_committed_corpus"] = True
        m["edges_file"] = os.path.join(kdir, "edges.gz") if export else None
        return m
    os.makedirs(cdir, exist_ok=True)
    log(f"[tlc] model checking {module} / {cfg} (workers={workers}) ...")
    r, text = run_tlc(module, cfg, workers=workers, timeout=timeout,
                      keep_edges=edges if export else None, heap=heap, extra=extra)
    with open(os.path.join(cdir, "tlc.out"), "w") as fh:
        fh.write(text)
    if not r["ok"]:
        log(text[-3000:])
        # a model-level failure is a property of the specification, not of the code
        r["model_error"] = True
    m = dict(r, module=module, cfg=cfg, key=key)
    if r["ok"]:
        with open(meta, "w") as fh:
            json.dump(m, fh)
        if corpus and os.environ.get("VERIF_WRITE_CORPUS"):
            _to_corpus(cdir, kdir, name)
    m["cached"] = False
    m["edges_file"] = edges if export else None
    m["text_tail"] = text[-2000:]
    log(f"[tlc] {module}/{cfg}: {r['distinct']} distinct, {r['generated']} generated, "
        f"{r['edges']} edges, {r['wall_s']}s, ok={r['ok']}")
    return m


def validate_trace(module, cfg, trace_path, timeout=900, heap="4g"):
    """TLC trace validation (code -> spec). Returns (accepted, info)."""
    env = {"TRACE": trace_path, "JAVA_TOOL_OPTIONS": TRACE_JAVA_OPTS + f" -Xmx{heap}"}
    r, text = run_tlc(module, cfg, workers=1, timeout=timeout, env=env)
    accepted = r["ok"] and "TRACE-REJECTED" not in text and "is false" not in text
    info = dict(r)
    m = re.search(r'"TRACE-REJECTED at event", (\d+)', text)
    if m:
        info["rejected_at"] = int(m.group(1))
    if not accepted:
        info["tail"] = text[-3000:]
    if "Parsing or semantic analysis failed" in text or "java.lang." in text and not m:
        if not r["errors"] or "Parsing" in text:
            raise ToolError("TLC failed on trace spec: " + text[-1500:])
    return accepted, info


def pipe_edges_to(edges_file, cmd, limit=None, stride=1, procs=1):
    """Feeds exported behaviours to `procs` copies of a harness command (round robin); returns
    their stdout lines (parsed JSON) and the number of behaviours fed."""
    import threading
    ps = [subprocess.Popen(cmd, stdin=subprocess.PIPE, stdout=subprocess.PIPE, text=True)
          for _ in range(procs)]
    outs = []
    lock = threading.Lock()

    def reader(p):
        for line in p.stdout:
            line = line.strip()
            if line:
                try:
                    o = json.loads(line)
                except Exception:
                    o = {"garbage": line[:300]}
                with lock:
                    outs.append(o)
    ths = [threading.Thread(target=reader, args=(p,)) for p in ps]
    for th in ths:
        th.start()
    n = 0
    with gzip.open(edges_file, "rt") as fh:
        for i, line in enumerate(fh):
            if stride > 1 and i % stride:
                continue
            try:
                ps[n % procs].stdin.write(line)
            except BrokenPipeError:
                break
            n += 1
            if limit and n >= limit:
                break
    for p in ps:
        p.stdin.close()
    for th in ths:
        th.join()
    for p in ps:
        p.wait()
        if p.returncode != 0:
            raise ToolError(f"harness command {cmd[0]} exited {p.returncode}")
    return outs, n


def write_cfg(path, spec, constants, invariants=(), properties=(), view=None, post=None,
              constraint=None, action_constraint=None, init_next=None):
    """Writes a TLC config. `constants` maps name -> TLA+ text, or ("<-", name) for substitution."""
    lines = []
    if init_next:
        lines += [f"INIT {init_next[0]}", f"NEXT {init_next[1]}"]
    else:
        lines.append(f"SPECIFICATION {spec}")
    if constants:
        lines.append("CONSTANTS")
    for k, v in constants.items():
        if isinstance(v, tuple):
            lines.append(f"  {k} <- {v[1]}")
        else:
            lines.append(f"  {k} = {v}")
    if view:
        lines.append(f"VIEW {view}")
    if invariants:
        lines.append("INVARIANTS " + " ".join(invariants))
    if properties:
        lines.append("PROPERTIES " + " ".join(properties))
    if constraint:
        lines.append(f"CONSTRAINT {constraint}")
    if action_constraint:
        lines.append(f"ACTION_CONSTRAINT {action_constraint}")
    if post:
        lines.append(f"POSTCONDITION {post}")
    lines.append("CHECK_DEADLOCK FALSE")
    with open(path, "w") as fh:
        fh.write("\n".join(lines) + "\n")
    return path


def tla_set(xs):
    return "{" + ", ".join(json.dumps(x) if isinstance(x, str) else str(x) for x in xs) + "}"


def sample_edges(edges_file, k=3):
    out = []
    with gzip.open(edges_file, "rt") as fh:
        for i, line in enumerate(fh):
            if i in (0, 50, 5000) or len(out) < 1:
                try:
                    out.append(json.loads(json.loads(line)[5:]))
                except Exception:
                    pass
            if len(out) >= k or i > 5000:
                break
    return out


# --------------------------------------------------------------------------- verdicts / evidence

def load_known_findings():
    p = os.path.join(ROOT, "known_findings.json")
    if not os.path.exists(p):
        return []
    with open(p) as fh:
        return json.load(fh).get("findings", [])


def save_replay(prop, obj):
    d = os.path.join(REPLAYS, prop)
    os.makedirs(d, exist_ok=True)
    body = json.dumps(obj, sort_keys=True)
    path = os.path.join(d, sha(body) + ".json")
    with open(path, "w") as fh:
        fh.write(body)
    return path


class Result:
    def __init__(self, prop, tier, seed, level):
        self.prop, self.tier, self.seed, self.level = prop, tier, seed, level
        self.coverage = {}
        self.assumptions = []
        self.violations = []      # (replay_path, text)
        self.known = []           # text
        self.notes = []
        self.t0 = time.time()

    def violation(self, obj, text=""):
        path = save_replay(self.prop, obj)
        self.violations.append((path, text))

    def finish(self):
        ensure_dirs()
        wall = round(time.time() - self.t0, 2)
        ev = {
            "property_id": self.prop, "tier": self.tier, "seed": self.seed, "level": self.level,
            "coverage": self.coverage, "assumptions": self.assumptions, "wall_s": wall,
            "violations": len(self.violations),
        }
        if self.notes:
            ev["coverage"]["notes"] = self.notes
        if self.known:
            ev["coverage"]["known_findings_hit"] = self.known
        with open(os.path.join(EVID, self.prop + ".json"), "w") as fh:
            json.dump(ev, fh, indent=1, sort_keys=True)
        for k in self.known:
            print(f"KNOWN-FINDING: property={self.prop} {k}")
        seen = set()
        for path, text in self.violations:
            if path in seen:
                continue
            seen.add(path)
            print(f"VIOLATION property={self.prop} replay={path}" + (f"  # {text}" if text else ""))
        print(f"[{self.prop}] tier={self.tier} violations={len(seen)} known={len(self.known)} "
              f"wall={wall}s")
        return 1 if self.violations else 0
