"""Cluster-level properties decided with Gossip.tla: C02 C03 C04 C05 C20 (core step relation).

Pipeline per run (DESIGN 2.2):
  model   : TLC checks every formula on Gossip.tla for small constants (spec-only, cached) and
            exports one behaviour per transition.
  replay  : every behaviour is executed on real nodes; projected states / replies are compared (R1).
  drive   : seeded random scenarios on real nodes -> NDJSON traces -> TLC TraceGossip (reuses the
            actions; evaluates all formulas at every real step).
  observe : every real execution that does not conform (replay divergence or rejected trace) is
            judged by ObserveGossip -- the property's own formulas on the logged real states (R2);
            divergent prefixes are amplified with random continuations before judging.
  VIOLATION only when the property's formula fails on a real execution; mere non-conformance is
  reported as drift in the evidence file."""
import json
import os
import subprocess

from lib import vlib

FILES = ["NodeStateOps.tla", "Gossip.tla", "MC_Gossip.tla", "TraceGossip.tla",
         "MC_TraceGossip.tla", "ObserveGossip.tla", "MC_ObserveGossip.tla"]

FORMULAS = {
    "C02": {"inv": ["C02_NoResurrection"], "props": []},
    "C03": {"inv": ["C03_Integrity"], "props": []},
    "C04": {"inv": ["C04_NoPanic"], "props": ["C04_Monotonic", "C04_FreshVersion"]},
    "C05": {"inv": ["C05_OwnerAhead"], "props": ["C05_OwnUntouched"]},
    "C20": {"inv": [], "props": ["C20_Callback"]},
}
ALL_INV = ["C02_NoResurrection", "C03_Integrity", "C04_NoPanic", "C05_OwnerAhead",
           "WellFormedCopies", "NoStaleTombstones", "C12_Sets", "C16_Isolation"]
ALL_PROPS = ["C04_Monotonic", "C04_FreshVersion", "C05_OwnUntouched", "C20_Callback"]

BASE = {
    "Node": vlib.tla_set(["n1", "n2"]), "Writers": vlib.tla_set(["n1"]),
    "Key": vlib.tla_set(["k1", "k2"]), "Val": vlib.tla_set(["a", "b"]),
    "Cluster": ("<-", "MC_Cluster"), "Grace": 2, "Advances": "{2}", "Budget": 99,
    "MaxVer": 3, "MaxInflight": 1, "MaxClock": 2, "MaxHb": 0, "TrackHb": "FALSE",
    "PhiN": 8, "PhiD": 1, "Window": 3, "MaxInterval": 10, "Prior": 5, "DeadGrace": 100,
    "PredKey": '""', "PredVal": '""', "Enable": vlib.tla_set(["api", "gc", "lose", "dup"]),
}

# exhaustive model configs: name -> (constants override, harness cfg, export mode)
MODEL_CFGS = {
    "two": (dict(), {"nodes": ["n1", "n2"], "grace": 2, "strip_hb": True}),
    "two_ttl": (dict(Val=vlib.tla_set(["a"]), Enable=vlib.tla_set(["api", "ttl", "gc", "lose", "dup"])),
                {"nodes": ["n1", "n2"], "grace": 2, "strip_hb": True}),
    "three": (dict(Node=vlib.tla_set(["n1", "n2", "n3"]), Val=vlib.tla_set(["a"]),
                   Enable=vlib.tla_set(["api", "gc", "lose"])),
              {"nodes": ["n1", "n2", "n3"], "grace": 2, "strip_hb": True}),
}
TIER_MODELS = {"quick": ["two"], "thorough": ["two", "two_ttl", "three"]}

# driver scenarios: (name, harness drive cfg, TLC constants override)
FD_SMALL = {"phi": 2.0, "window": 3, "max_interval": 4, "initial": 2, "dead_grace": 6}
FD_CONST = {"PhiN": 2, "PhiD": 1, "Window": 3, "MaxInterval": 4, "Prior": 2, "DeadGrace": 6}


def scenarios(tier, seed):
    q = tier == "quick"
    return [
        ("s3", {"nodes": ["n1", "n2", "n3"], "grace": 3, "keys": ["k1", "k2", "k3"],
                "advances": [1, 2, 3, 4], "seed": seed * 1000 + 1, "traces": 120 if q else 1500,
                "len": 100, "w_sync": 10}, {"Grace": 3}),
        ("s4fd", {"nodes": ["n1", "n2", "n3", "n4"], "grace": 3, "fd": FD_SMALL,
                  "keys": ["k1", "k2", "k3"], "advances": [1, 2, 3, 4], "seed": seed * 1000 + 2,
                  "traces": 120 if q else 1500, "len": 120, "w_live": 15, "w_hb": 5},
         dict(FD_CONST, Grace=3)),
        ("s2w", {"nodes": ["n1", "n2"], "writers": ["n1"], "grace": 2, "keys": ["k1", "k2"],
                 "advances": [1, 2, 3], "seed": seed * 1000 + 3, "traces": 150 if q else 2000,
                 "len": 60, "nvals": 2, "w_ttl": 2}, {"Grace": 2}),
    ]


def trace_constants(over):
    c = dict(BASE)
    c.update({"Node": ("<-", "MC_Node"), "Writers": ("<-", "MC_Node"), "Key": "{}", "Val": "{}",
              "Advances": "{}", "TrackHb": "TRUE", "Enable": "{}", "MaxVer": 0, "MaxInflight": 0,
              "MaxClock": 0})
    c.update(over)
    return c


def tmp(name):
    return os.path.join(vlib.WORK, "tmp", name)


# ------------------------------------------------------------------ trace helpers

def split_traces(path):
    """Returns list of traces; each a list of raw lines (first line is the Reset event)."""
    traces = []
    with open(path) as fh:
        for line in fh:
            if '"a":"Reset"' in line:
                traces.append([line])
            elif traces:
                traces[-1].append(line)
    return traces


def write_traces(path, traces):
    with open(path, "w") as fh:
        for t in traces:
            fh.writelines(t)


def steps_of_events(lines):
    """Rebuilds the driver's step list from recorded events (index field `i`; gaps are Nops)."""
    evs = [json.loads(x) for x in lines if '"a":"Reset"' not in x]
    if not evs:
        return []
    n = max(e.get("i", j) for j, e in enumerate(evs)) + 1
    steps = [{"a": "Nop"} for _ in range(n)]
    for j, e in enumerate(evs):
        st = {k: e[k] for k in ("a", "n", "k", "v", "to", "m", "d", "x", "kvs", "max", "gc") if k in e}
        if e["a"] == "Inject":
            st["msg"] = e["msg"]
        steps[e.get("i", j)] = st
    return steps


def validate_batch(trace_path, consts, label, max_rounds=6):
    """TLC trace validation of a file of Reset-separated traces. Returns
    (n_traces, n_events, accepted_count, rejected=[(lines, rejected_event_index_in_trace)])."""
    cfg = vlib.write_cfg(tmp(f"trace_{label}.cfg"), "TraceSpec", consts, invariants=ALL_INV,
                         properties=ALL_PROPS, view="TraceView", post="TraceAccepted")
    traces = split_traces(trace_path)
    total = len(traces)
    nev = sum(len(t) for t in traces)
    rejected = []
    cur = traces
    path = trace_path
    for rnd in range(max_rounds):
        if not cur:
            break
        accepted, info = vlib.validate_trace("MC_TraceGossip.tla", cfg, path, timeout=3000)
        if accepted:
            return total, nev, len(cur), rejected
        at = info.get("rejected_at")
        errs = " ".join(info.get("errors", []))
        if at is None:
            # an invariant / action property failed on a step the spec accepted: find the position
            import re
            m = re.search(r"(\d+) states generated", info.get("tail", ""))
            at = info.get("distinct", 0) or 1
        # locate the trace containing global event index `at` (1-based line number)
        pos = 0
        hit = None
        for ti, t in enumerate(cur):
            if pos + len(t) >= at:
                hit = ti
                break
            pos += len(t)
        if hit is None:
            hit = len(cur) - 1
            pos = sum(len(t) for t in cur[:-1])
        rejected.append((cur[hit], at - pos, errs[:600]))
        cur = cur[:hit] + cur[hit + 1:]
        path = tmp(f"trace_{label}_r{rnd}.ndjson")
        write_traces(path, cur)
    # too many rejections: the rest is not validated against the actions; hand it to the observer
    for t in cur:
        rejected.append((t, None, "not validated (too many rejections in this batch)"))
    return total, nev, 0, rejected


def _observe_once(path, cfg):
    """One ObserveGossip run. Returns None (all formulas hold) or (formula, line_index) where
    line_index is the 1-based line of the trace file whose consumption produced the bad state."""
    import re
    env = {"TRACE": path, "JAVA_TOOL_OPTIONS": vlib.TRACE_JAVA_OPTS + " -Xmx4g"}
    r, text = vlib.run_tlc("MC_ObserveGossip.tla", cfg, workers=1, timeout=3000, env=env)
    if "Parsing or semantic analysis failed" in text:
        raise vlib.ToolError("observer spec failed to parse: " + text[-800:])
    m = re.search(r"(Invariant|Action property) (\w+) is violated", text)
    inc = re.search(r'"OBSERVE-INCOMPLETE at event", (\d+)', text)
    if not m and not inc:
        if "Error:" in text:
            raise vlib.ToolError("observer failed: " + text[-1200:])
        return None
    # d states were generated = initial state + (d-1) consumed lines
    d = int(inc.group(1)) if inc else r["distinct"]
    return (m.group(2) if m else "evaluation-error", max(d - 1, 1))


def observe(lines_list, consts, prop, label):
    """Runs ObserveGossip with the property's formulas on the given real traces.
    Returns [(trace_index, formula, event_index_in_trace)], each confirmed on its trace alone."""
    f = FORMULAS[prop]
    cfg = vlib.write_cfg(tmp(f"obs_{label}.cfg"), "ObsSpec", consts, invariants=f["inv"],
                         properties=f["props"], view="ObsView", post="ObsDone")
    found = []
    cur = list(enumerate(lines_list))
    for rnd in range(4):
        if not cur:
            break
        path = tmp(f"obs_{label}_{rnd}.ndjson")
        write_traces(path, [t for _, t in cur])
        r = _observe_once(path, cfg)
        os.remove(path)
        if r is None:
            break
        formula, at = r
        pos = 0
        hit = len(cur) - 1
        for ti, (_, t) in enumerate(cur):
            if pos + len(t) >= at:
                hit = ti
                break
            pos += len(t)
        # confirm on the candidate trace alone (and its neighbours, should the position be off)
        confirmed = None
        for cand in (hit, hit - 1, hit + 1):
            if 0 <= cand < len(cur):
                p1 = tmp(f"obs_{label}_one.ndjson")
                write_traces(p1, [cur[cand][1]])
                r1 = _observe_once(p1, cfg)
                os.remove(p1)
                if r1 is not None:
                    confirmed = (cand, r1[0], r1[1] - 1)
                    break
        if confirmed is None:
            raise vlib.ToolError("observer reported a violation that does not reproduce on any "
                                 "single trace")
        found.append((cur[confirmed[0]][0], confirmed[1], confirmed[2]))
        cur = cur[:confirmed[0]] + cur[confirmed[0] + 1:]
    return found


def run_harness(args, stdin_text=None, out_path=None):
    binp = vlib.harness_bin("gossip")
    if out_path:
        with open(out_path, "w") as fh:
            p = subprocess.run([binp] + args, input=stdin_text, text=True, stdout=fh)
        if p.returncode != 0:
            raise vlib.ToolError("gossip harness failed: " + " ".join(args)[:200])
        return None
    p = subprocess.run([binp] + args, input=stdin_text, text=True, stdout=subprocess.PIPE)
    if p.returncode != 0:
        raise vlib.ToolError("gossip harness failed: " + " ".join(args)[:200])
    return p.stdout


KF1_STEPS = [
    {"a": "Set", "n": "n1", "k": "k1", "v": "a"}, {"a": "Set", "n": "n1", "k": "k2", "v": "b"},
    {"a": "CreateSyn", "n": "n2", "to": "n1"}, {"a": "Process", "n": "n1", "m": 2},
    {"a": "Process", "n": "n2", "m": 3}, {"a": "Process", "n": "n1", "m": 4},
    {"a": "Delete", "n": "n1", "k": "k2", "v": ""}, {"a": "Advance", "d": 2}, {"a": "Gc", "n": "n1"},
    {"a": "CreateSyn", "n": "n3", "to": "n1"}, {"a": "Process", "n": "n1", "m": 9},
    {"a": "Process", "n": "n3", "m": 10},
    {"a": "CreateSyn", "n": "n3", "to": "n2"}, {"a": "Process", "n": "n2", "m": 12},
    {"a": "Process", "n": "n3", "m": 13},
    {"a": "CreateSyn", "n": "n3", "to": "n1"}, {"a": "Process", "n": "n1", "m": 15},
    {"a": "Process", "n": "n3", "m": 16},
]


def kf1_witness(res):
    """Replays the KF-1 history on the real code: reports KNOWN-FINDING iff it still reproduces."""
    kf = [f for f in vlib.load_known_findings() if f.get("id") == "KF-1" and f.get("status") == "open"]
    if not kf:
        return
    hc = {"nodes": ["n1", "n2", "n3"], "grace": 2}
    tpath = tmp("kf1.ndjson")
    run_harness(["trace", json.dumps(hc)], stdin_text=json.dumps({"steps": KF1_STEPS}) + "\n",
                out_path=tpath)
    consts = trace_constants({"Grace": 2})
    lines = split_traces(tpath)
    # strict formula must fail, exempted formula must hold
    save = FORMULAS.get("_strict")
    FORMULAS["_strict"] = {"inv": ["C02_Strict"], "props": []}
    strict = observe(lines, consts, "_strict", "kf1s")
    exempt = observe(lines, consts, "C02", "kf1e")
    if strict and not exempt:
        res.known.append("KF-1 resurrection through an incremental delta accepted by a mid-reset copy "
                         "(watermark above max version) from a lower-watermark peer: still reproduces "
                         f"({kf[0].get('text', '')[:120]})")
        res.coverage_extra["kf1_witness"] = {"strict_formula_fails_at_event": strict[0][2],
                                             "exempted_formula_holds": True}
    elif exempt:
        res.violation({"kind": "gossip-trace", "hcfg": hc, "steps": KF1_STEPS, "formula": exempt[0][1],
                       "consts": {"Grace": 2}},
                      "KF-1 witness violates C02 outside the known-finding signature")
    else:
        res.coverage_extra["kf1_witness"] = {"reproduces": False}


def run(prop, tier, seed, replay=None):
    res = vlib.Result(prop, tier, seed, "model_checking")
    res.coverage_extra = {}
    vlib.build_harness()

    if replay:
        with open(replay) as fh:
            obj = json.load(fh)
        tpath = tmp("replay.ndjson")
        run_harness(["trace", json.dumps(obj["hcfg"])],
                    stdin_text=json.dumps({"steps": obj["steps"]}) + "\n", out_path=tpath)
        consts = trace_constants(obj.get("consts", {}))
        v = observe(split_traces(tpath), consts, prop, "replay")
        for (_, formula, at) in v:
            res.violation(obj, f"{formula} fails at event {at}")
        res.coverage = {"states": 1, "transitions": len(obj["steps"]),
                        "traces_validated_against_impl": 1, "samples": [obj["steps"][:6]]}
        return res.finish()

    drift = []          # (hcfg, consts, steps, note)
    divergent_traces = []   # (lines, consts, hcfg, note)
    states = transitions = 0
    conform = 0
    model_info = {}
    samples = []

    # ---------------- spec -> code
    for name in TIER_MODELS[tier]:
        over, hcfg = MODEL_CFGS[name]
        c = dict(BASE)
        c.update(over)
        cfgp = vlib.write_cfg(tmp(f"model_{name}.cfg"), "Spec", c, invariants=ALL_INV,
                              properties=ALL_PROPS, view="View", constraint="Bounded",
                              action_constraint="EmitEdge")
        m = vlib.cached_model_run("gossip_" + name, "MC_Gossip.tla", cfgp, FILES[:3], workers=6,
                                  timeout=3400, heap="12g")
        if not m["ok"]:
            raise vlib.ToolError(f"Gossip model {name}: formula fails on the MODEL (specification "
                                 "issue, not a verdict on the code): " + "; ".join(m["errors"][:2]))
        states += m["distinct"]
        transitions += m["generated"]
        outs, fed = vlib.pipe_edges_to(m["edges_file"],
                                       [vlib.harness_bin("gossip"), "replay",
                                        json.dumps(dict(hcfg, max_report=8))], procs=6)
        summ = [o for o in outs if o.get("summary")]
        div = [o for o in outs if o.get("diverged")]
        nb = sum(s["behaviours"] for s in summ)
        nd = sum(s["diverged"] for s in summ)
        conform += nb - nd
        model_info[name] = {"distinct": m["distinct"], "generated": m["generated"],
                            "behaviours_replayed": nb, "diverged": nd,
                            "steps": sum(s["steps"] for s in summ), "cached_model": m.get("cached")}
        if not samples:
            samples = vlib.sample_edges(m["edges_file"], 2)
        for o in div[:8]:
            consts = trace_constants({"Grace": c["Grace"]})
            drift.append((hcfg, {"Grace": c["Grace"]}, o["steps"], f"replay of model {name} diverged"))
            lines = ['{"a":"Reset"}\n'] + [json.dumps(strip(e)) + "\n" for e in o["events"]
                                          if e.get("a") not in ("Nop", "Lose") and not e.get("skipped")]
            divergent_traces.append((lines, consts, hcfg, {"Grace": c["Grace"]}, o["steps"]))

    # ---------------- code -> spec
    drv = {}
    for (sname, dcfg, over) in scenarios(tier, seed):
        tpath = tmp(f"drv_{prop}_{sname}.ndjson")
        run_harness(["drive", json.dumps(dcfg)], out_path=tpath)
        consts = trace_constants(over)
        total, nev, acc, rej = validate_batch(tpath, consts, f"{prop}_{sname}")
        conform += acc
        drv[sname] = {"traces": total, "events": nev, "accepted": acc, "rejected": len(rej)}
        hcfg = {k: dcfg[k] for k in ("nodes", "grace", "fd", "val_size", "pred") if k in dcfg}
        for (lines, at, errs) in rej:
            steps = steps_of_events(lines)
            drift.append((hcfg, over, steps, f"driver {sname}: trace rejected at event {at}: {errs[:200]}"))
            divergent_traces.append((lines, consts, hcfg, over, steps))
        if len(samples) < 3:
            with open(tpath) as fh:
                samples.append([json.loads(x) for x in fh.readlines()[1:4]])
        os.remove(tpath)

    # ---------------- judge every non-conforming real execution with the property's own formulas
    amplified = 0
    if divergent_traces:
        by_consts = {}
        for item in divergent_traces:
            by_consts.setdefault(json.dumps(item[3], sort_keys=True) + json.dumps(item[2], sort_keys=True), []).append(item)
        for gi, (key, items) in enumerate(by_consts.items()):
            consts, hcfg, over = items[0][1], items[0][2], items[0][3]
            v = observe([it[0] for it in items], consts, prop, f"{prop}_g{gi}")
            for (ti, formula, at) in v:
                res.violation({"kind": "gossip-trace", "hcfg": hcfg, "consts": over,
                               "steps": items[ti][4], "formula": formula},
                              f"{formula} fails on a real execution (event {at})")
            if not v:
                # amplification: random continuations of the divergent prefixes on the real code
                pre = [it[4] for it in items[:6] if it[4]]
                if pre:
                    pfile = tmp(f"prefix_{prop}_{gi}.json")
                    with open(pfile, "w") as fh:
                        json.dump(pre, fh)
                    k = 40 if tier == "quick" else 200
                    dcfg = dict(hcfg, keys=["k1", "k2", "k3"], advances=[1, 2, 3], seed=seed * 77 + gi,
                                traces=k, len=50, prefix_file=pfile, w_sync=30,
                                w_live=(10 if "fd" in hcfg else 0))
                    apath = tmp(f"amp_{prop}_{gi}.ndjson")
                    run_harness(["drive", json.dumps(dcfg)], out_path=apath)
                    atr = split_traces(apath)
                    amplified += len(atr)
                    v2 = observe(atr, consts, prop, f"{prop}_a{gi}")
                    for (ti, formula, at) in v2:
                        res.violation({"kind": "gossip-trace", "hcfg": hcfg, "consts": over,
                                       "steps": steps_of_events(atr[ti]), "formula": formula},
                                      f"{formula} fails on a continuation of a divergent execution "
                                      f"(event {at})")
                    os.remove(apath)

    if prop == "C02":
        kf1_witness(res)
    pair_cov = {}
    if prop in ("C04", "C20"):
        from checks import agreement
        pair_cov = agreement.pairs_stage(res, prop, tier)

    res.coverage = {
        "states": states, "transitions": transitions,
        "traces_validated_against_impl": conform,
        "models": model_info, "drivers": drv,
        "drift": [{"note": d[3], "steps": d[2][:40]} for d in drift[:5]],
        "drift_count": len(drift), "amplified_continuations": amplified,
        "formulas": FORMULAS[prop],
        "samples": samples,
        "exhaustive": False,
        "checker_cmd": "tlc MC_Gossip (model+export) | harness gossip replay ; harness gossip drive | "
                       "tlc MC_TraceGossip ; non-conforming executions -> tlc MC_ObserveGossip",
    }
    res.coverage.update(res.coverage_extra)
    res.coverage.update(pair_cov)
    res.assumptions = [
        "tokio paused clock = model clock; 1 tick = 1 s",
        "bounded scopes: exhaustive for the listed constants only, sampled beyond",
        "every ChitchatId is used by one incarnation; honest nodes only",
        "VIOLATION only if the property's formula fails on a real execution; non-conformance alone is drift",
    ]
    return res.finish()


def strip(e):
    if isinstance(e, dict):
        return {k: strip(v) for k, v in e.items() if v is not None}
    if isinstance(e, list):
        return [strip(x) for x in e]
    return e
