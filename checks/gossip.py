"""Cluster-level properties decided with Gossip.tla:
   C02 C03 C04 C05 C20 (core), C07 (structure + observed size), C12 C13 (membership, watch),
   C16 (cluster isolation), C18 (catch-up).

One family pipeline, shared by all of them (DESIGN 2.2):
  model   : TLC checks every formula on Gossip.tla for small constants (spec-only, cached) and
            exports one behaviour per transition.
  replay  : every behaviour is executed on real nodes; projected states / replies are compared (R1).
  drive   : seeded random scenarios on real nodes -> NDJSON traces -> TLC TraceGossip (reuses the
            actions; evaluates all formulas at every real step).
  observe : every real execution that does not conform (replay divergence or rejected trace) is
            judged by ObserveGossip -- the property's own formulas on the logged real states (R2);
            divergent prefixes are amplified with random continuations before judging.
  VIOLATION only when the property's formula fails on a real execution; mere non-conformance is
  reported as drift in the evidence file.  The code-dependent part of the pipeline is cached by
  (specification hash, hash of /repo/chitchat sources, tier, seed), so the properties of the family
  share one computation per tree."""
import hashlib
import json
import os
import re
import subprocess

from lib import vlib

FILES = ["NodeStateOps.tla", "FdOps.tla", "Gossip.tla", "MC_Gossip.tla", "TraceGossip.tla",
         "MC_TraceGossip.tla", "ObserveGossip.tla", "MC_ObserveGossip.tla"]

# formulas that constitute each property (inv = state invariants, props = action properties);
# "nogc" formulas are part of the property only on executions without tombstone GC (C13, see DESIGN)
FORMULAS = {
    "C01": {"inv": [], "props": ["C01_ConvergedReal", "C01_ProgressObs"]},
    "C02": {"inv": ["C02_NoResurrection"], "props": []},
    "C03": {"inv": ["C03_Integrity", "C03_KnownMembers"], "props": []},
    "C04": {"inv": ["C04_NoPanic"], "props": ["C04_Monotonic", "C04_FreshVersion"]},
    "C05": {"inv": ["C05_OwnerAhead"], "props": ["C05_OwnUntouched"]},
    "C07": {"inv": [], "props": ["C07_Structure", "C07_Size"]},
    "C12": {"inv": ["C12_Sets"], "props": ["C12_Partition", "C12_Quarantine", "C12_Removal", "C12_NoRevival"]},
    "C13": {"inv": [], "props": ["C13_Publish", "C13_OnlyEval"], "nogc": ["C13_Exact"]},
    "C16": {"inv": ["C16_Isolation"], "props": ["C16_Reject"]},
    "C18": {"inv": ["C18_LiveNeedsHeartbeats"], "props": ["C18_Catchup", "C18_NoPanic"]},
    "C20": {"inv": [], "props": ["C20_Callback"]},
}
ALL_INV = ["C02_NoResurrection", "C03_Integrity", "C04_NoPanic", "C05_OwnerAhead",
           "WellFormedCopies", "C12_Sets", "C16_Isolation"]
MODEL_ONLY_INV = ["NoStaleTombstones"]
TRACE_ONLY_INV = ["C18_LiveNeedsHeartbeats", "C03_KnownMembers"]    # defined in TraceGossip / ObserveGossip (needs the evid ghost)
ALL_PROPS = ["C04_Monotonic", "C04_FreshVersion", "C05_OwnUntouched", "C20_Callback",
             "C07_Structure", "C12_Partition", "C12_Quarantine", "C12_Removal", "C12_NoRevival",
             "C13_Publish", "C13_OnlyEval", "C16_Reject", "C18_Catchup", "C18_NoPanic", "C01_ConvergedReal"]

BASE = {
    "Node": vlib.tla_set(["n1", "n2"]), "Writers": vlib.tla_set(["n1"]),
    "Key": vlib.tla_set(["k1", "k2"]), "Val": vlib.tla_set(["a", "b"]),
    "Cluster": ("<-", "MC_Cluster"), "Addr": ("<-", "MC_Addr"), "Grace": 2, "Advances": "{2}", "Budget": 99,
    "MaxVer": 3, "MaxInflight": 1, "MaxClock": 2, "MaxHb": 0, "TrackHb": "FALSE", "KeepPath": "TRUE",
    "PhiN": 8, "PhiD": 1, "Window": 3, "MaxInterval": 10, "Prior": 5, "DeadGrace": 100,
    "PredKey": '""', "PredVal": '""', "ConvRounds": 3, "Enable": vlib.tla_set(["api", "gc", "lose", "dup"]),
}
FD_TINY = {"PhiN": 1, "PhiD": 1, "Window": 1, "MaxInterval": 2, "Prior": 1, "DeadGrace": 4}
FD_TINY_H = {"phi": 1.0, "window": 1, "max_interval": 2, "initial": 1, "dead_grace": 4}

# exhaustive model configs: name -> (constants override, harness cfg, nogc?)
MODEL_CFGS = {
    "two": (dict(), {"nodes": ["n1", "n2"], "grace": 2, "strip_hb": True}, False, ["C01_Progress", "C01_Converges"]),
    # size truncation: one entry with a value per delta (Budget = 1 unit; values realised as ~50 KB strings)
    "two_mtu": (dict(Budget=1), {"nodes": ["n1", "n2"], "grace": 2, "strip_hb": True, "val_size": 50000}, False,
                ["C01_Progress", "C01_Converges"]),
    "two_ttl": (dict(Val=vlib.tla_set(["a"]), Enable=vlib.tla_set(["api", "ttl", "gc", "lose", "dup"])),
                {"nodes": ["n1", "n2"], "grace": 2, "strip_hb": True}, False),
    "three": (dict(Node=vlib.tla_set(["n1", "n2", "n3"]), Val=vlib.tla_set(["a"]),
                   Enable=vlib.tla_set(["api", "gc", "lose"])),
              {"nodes": ["n1", "n2", "n3"], "grace": 2, "strip_hb": True}, False, ["C01_Progress", "C01_Converges"]),
    # membership: concrete detector with tiny parameters, predicate on k1 = a, no tombstone GC
    "member": (dict(FD_TINY, Key=vlib.tla_set(["k1"]), Val=vlib.tla_set(["a"]), MaxVer=1,
                    Advances="{1, 2}", MaxClock=5, MaxHb=3, TrackHb="TRUE",
                    PredKey='"k1"', PredVal='"a"', Enable=vlib.tla_set(["api", "live"])),
               {"nodes": ["n1", "n2"], "grace": 2, "fd": FD_TINY_H, "pred": ["k1", "a"]}, True),
    "member_l": (dict(FD_TINY, Key=vlib.tla_set(["k1"]), Val=vlib.tla_set(["a"]), MaxVer=1,
                      Advances="{1, 2}", MaxClock=7, MaxHb=4, TrackHb="TRUE",
                      PredKey='"k1"', PredVal='"a"', Enable=vlib.tla_set(["api", "live"])),
                 {"nodes": ["n1", "n2"], "grace": 2, "fd": FD_TINY_H, "pred": ["k1", "a"]}, True),
    # two clusters sharing addresses: n1,n2 in "c", n3 in "C"
    "clusters": (dict(Node=vlib.tla_set(["n1", "n2", "n3"]), Cluster=("<-", "MC_ClusterSplit"),
                      Key=vlib.tla_set(["k1"]), Val=vlib.tla_set(["a"]), MaxVer=1, MaxInflight=2,
                      Writers=vlib.tla_set(["n1", "n3"]), Enable=vlib.tla_set(["api", "lose", "dup"])),
                 {"nodes": ["n1", "n2", "n3"], "grace": 2, "strip_hb": True,
                  "clusters": {"n1": "c", "n2": "c", "n3": "C"}}, False),
    # external catch-up interleaved with gossip
    "catchup": (dict(Val=vlib.tla_set(["a"]), MaxVer=2, Enable=vlib.tla_set(["api", "gc", "catchup"])),
                {"nodes": ["n1", "n2"], "grace": 2, "strip_hb": True}, False),
    # a datagram delayed across a tombstone collection and a size-truncated reset (three keys, one entry per
    # delta, two datagrams in flight): 2.3 M states, so only the deliveries that reach a mid-reset copy are
    # exported and replayed (EmitFocus); every state is still checked against every formula
    "two_delay": (dict(Key=vlib.tla_set(["k1", "k2", "k3"]), Val=vlib.tla_set(["a"]), MaxVer=4, MaxInflight=2,
                       Budget=1, Enable=vlib.tla_set(["api", "gc"])),
                  {"nodes": ["n1", "n2"], "grace": 2, "strip_hb": True, "val_size": 50000}, False, [],
                  {"emit": "EmitFocus", "report": 60, "corpus": True}),
    # owner + two replicas, one entry per datagram, GC: a replica in the middle of a reset hears from the
    # OTHER replica (stale relay, the shape of KF-1) -- deliveries to a mid-reset copy only
    "three_relay": (dict(Node=vlib.tla_set(["n1", "n2", "n3"]), Val=vlib.tla_set(["a"]), Budget=1,
                         Enable=vlib.tla_set(["api", "gc"])),
                    {"nodes": ["n1", "n2", "n3"], "grace": 2, "strip_hb": True, "val_size": 50000}, False, [],
                    {"emit": "EmitFocus", "report": 60, "corpus": True}),
    # the same with three keys and four versions (3.0 M states, 17 min of TLC: corpus in the quick tier)
    "three_relay_l": (dict(Node=vlib.tla_set(["n1", "n2", "n3"]), Key=vlib.tla_set(["k1", "k2", "k3"]),
                           Val=vlib.tla_set(["a"]), MaxVer=4, Budget=1, Enable=vlib.tla_set(["api", "gc"])),
                      {"nodes": ["n1", "n2", "n3"], "grace": 2, "strip_hb": True, "val_size": 50000}, False, [],
                      {"emit": "EmitFocus", "report": 60, "corpus": True}),
}
TIER_MODELS = {"quick": ["two", "two_mtu", "member", "clusters", "catchup", "two_delay", "three_relay",
                         "three_relay_l"],
               "thorough": ["two", "two_mtu", "two_ttl", "three", "member_l", "clusters", "catchup", "two_delay",
                            "three_relay", "three_relay_l"]}

FD_SMALL = {"phi": 2.0, "window": 3, "max_interval": 4, "initial": 2, "dead_grace": 6}
FD_CONST = {"PhiN": 2, "PhiD": 1, "Window": 3, "MaxInterval": 4, "Prior": 2, "DeadGrace": 6}
CLUSTERS5 = {"n1": "c", "n2": "c", "n3": "C", "n4": "cc", "n5": ""}


# formulas that do not apply when arbitrary (inconsistent) states are fed through catch-up
GARBAGE_EXCLUDED = ["C02_NoResurrection", "C03_Integrity", "C05_OwnerAhead", "C05_OwnUntouched",
                    "WellFormedCopies"]


def scenarios(tier, seed):
    """(name, harness drive cfg, TLC constants override, nogc?[, excluded formulas])"""
    q = tier == "quick"
    k = 1 if q else 10
    return [
        ("s3", {"nodes": ["n1", "n2", "n3"], "grace": 3, "keys": ["k1", "k2", "k3"],
                "advances": [1, 2, 3, 4], "seed": seed * 1000 + 1, "traces": 100 * k,
                "len": 100, "w_sync": 10, "fair_rounds": 3}, {"Grace": 3}, False),
        ("s4fd", {"nodes": ["n1", "n2", "n3", "n4"], "grace": 3, "fd": FD_SMALL,
                  "keys": ["k1", "k2", "k3"], "advances": [1, 2, 3, 4], "seed": seed * 1000 + 2,
                  "traces": 100 * k, "len": 120, "w_live": 15, "w_hb": 5, "fair_rounds": 4},
         dict(FD_CONST, Grace=3), False),
        # five nodes (the upper end of the properties' cluster sizes), truncation, fair phase
        ("s5", {"nodes": ["n1", "n2", "n3", "n4", "n5"], "grace": 3, "val_size": 30000, "keys": ["k1", "k2", "k3"],
                "advances": [1, 2, 3, 4], "seed": seed * 1000 + 11, "traces": 40 * k, "len": 150, "nvals": 3,
                "w_sync": 20, "w_cut": 3, "fair_rounds": 5}, {"Grace": 3, "Budget": 2}, False),
        ("s2w", {"nodes": ["n1", "n2"], "writers": ["n1"], "grace": 2, "keys": ["k1", "k2"],
                 "advances": [1, 2, 3], "seed": seed * 1000 + 3, "traces": 100 * k,
                 "len": 60, "nvals": 2, "w_ttl": 2}, {"Grace": 2}, False),
        # size truncation: every value is ~30 KB, two fit one datagram (Budget = 2 entry units)
        ("s3mtu", {"nodes": ["n1", "n2", "n3"], "grace": 3, "val_size": 30000,
                   "keys": ["k1", "k2", "k3", "k4"], "advances": [1, 2, 3, 4],
                   "seed": seed * 1000 + 4, "traces": 80 * k, "len": 100, "nvals": 3, "w_sync": 10,
                   "fair_rounds": 6},
         {"Grace": 3, "Budget": 2}, False),
        # truncation + failure detector + predicate (watch channel under resets)
        ("s3mtufd", {"nodes": ["n1", "n2", "n3"], "grace": 3, "val_size": 50000, "fd": FD_SMALL,
                     "pred": ["k1", "v1"], "keys": ["k1", "k2", "k3"], "advances": [1, 2, 3],
                     "seed": seed * 1000 + 5, "traces": 60 * k, "len": 110, "nvals": 2,
                     "w_live": 18, "w_hb": 4, "w_sync": 10},
         dict(FD_CONST, Grace=3, Budget=1, PredKey='"k1"', PredVal='"v1"'), False),
        # membership without tombstone GC: the scope in which C13_Exact is claimed
        ("s4mem", {"nodes": ["n1", "n2", "n3", "n4"], "grace": 1000, "fd": FD_SMALL,
                   "pred": ["k1", "v1"], "keys": ["k1", "k2"], "advances": [1, 2, 3, 4],
                   "seed": seed * 1000 + 6, "traces": 80 * k, "len": 120, "nvals": 2,
                   "w_live": 25, "w_hb": 8, "w_ttl": 0},
         dict(FD_CONST, Grace=1000, PredKey='"k1"', PredVal='"v1"'), True),
        # lazy evaluator: liveness is evaluated rarely, so several members change state in ONE evaluation
        # (one dies while another becomes live); only n1 writes, so the others have equal max versions
        ("s4lazy", {"nodes": ["n1", "n2", "n3", "n4"], "writers": ["n1"], "grace": 1000, "fd": FD_SMALL,
                    "keys": ["k1"], "advances": [1, 2, 3, 4],
                    "seed": seed * 1000 + 12, "traces": 80 * k, "len": 160, "nvals": 2,
                    "w_live": 4, "w_hb": 12, "w_sync": 25, "w_cut": 5, "w_ttl": 0, "w_del": 0},
         dict(FD_CONST, Grace=1000), True),
        # five nodes in four clusters whose ids are prefixes / case variants of each other
        ("s5cl", {"nodes": ["n1", "n2", "n3", "n4", "n5"], "clusters": CLUSTERS5, "grace": 3,
                  "fd": FD_SMALL, "keys": ["k1", "k2"], "advances": [1, 2, 3],
                  "seed": seed * 1000 + 7, "traces": 60 * k, "len": 100, "w_live": 10, "w_hb": 3},
         dict(FD_CONST, Grace=3, Cluster=("<-", "MC_Cluster5")), False),
        # a node crashes and comes back under a new generation id at the same address (C05's assumption);
        # datagrams addressed to the old incarnation reach the new one
        ("s4rs", {"nodes": ["n1", "n2", "n3", "n1~1"], "restart": ["n1", "n1~1"], "grace": 3, "fd": FD_SMALL,
                  "keys": ["k1", "k2", "k3"], "advances": [1, 2, 3], "seed": seed * 1000 + 10, "traces": 80 * k,
                  "len": 120, "w_live": 8, "w_hb": 3, "w_sync": 10},
         dict(FD_CONST, Grace=3), False),
        # external catch-up with honest peer snapshots, interleaved with gossip, GC and partitions
        ("s3cu", {"nodes": ["n1", "n2", "n3"], "grace": 3, "fd": FD_SMALL, "keys": ["k1", "k2", "k3"],
                  "advances": [1, 2, 3, 4], "seed": seed * 1000 + 8, "traces": 60 * k, "len": 90,
                  "w_live": 8, "w_catchup": 14},
         dict(FD_CONST, Grace=3), False),
        # external catch-up with arbitrary / inconsistent supplied states (C18's input space)
        ("s3cug", {"nodes": ["n1", "n2", "n3"], "grace": 3, "fd": FD_SMALL, "keys": ["k1", "k2", "k3"],
                   "advances": [1, 2, 3, 4], "seed": seed * 1000 + 9, "traces": 60 * k, "len": 90,
                   "w_live": 8, "w_catchup": 16, "cu_garbage": True},
         dict(FD_CONST, Grace=3), False, GARBAGE_EXCLUDED),
        # ... on copies that already have a GC watermark (many deletions, collection passes, long advances)
        ("s3cugd", {"nodes": ["n1", "n2", "n3"], "grace": 2, "keys": ["k1", "k2", "k3"],
                    "advances": [2, 3, 4], "seed": seed * 1000 + 13, "traces": 60 * k, "len": 120,
                    "w_del": 8, "w_ttl": 2, "w_sync": 15, "w_catchup": 25, "cu_garbage": True, "nvals": 2},
         dict(Grace=2), False, GARBAGE_EXCLUDED),
    ]


def _hs(steps, a, b):
    i = len(steps)
    steps += [{"a": "CreateSyn", "n": a, "to": b}, {"a": "Process", "n": b, "m": i},
              {"a": "Process", "n": a, "m": i + 1}, {"a": "Process", "n": b, "m": i + 2}]


def witness_scenarios():
    """Directed scenarios for corner situations that random drivers reach rarely. Each is a fixed step
    list executed on real nodes and validated like a driver trace (name, hcfg, constants, steps, nogc)."""
    out = []
    # W1: a LIVE member's copy is reset by a delta that ends below the copy's previous max version
    # (the newest entry was deleted and collected at the owner), then the observer evaluates liveness:
    # the live member's max version DEcreased, a new watch value is due
    fd = {"phi": 8.0, "window": 5, "max_interval": 10, "initial": 5, "dead_grace": 40}
    fdc = {"PhiN": 8, "PhiD": 1, "Window": 5, "MaxInterval": 10, "Prior": 5, "DeadGrace": 40}
    st = [{"a": "Set", "n": "n1", "k": "k1", "v": "v1"}, {"a": "Set", "n": "n1", "k": "k2", "v": "v2"},
          {"a": "Set", "n": "n1", "k": "k3", "v": "v3"}]
    for _ in range(3):
        _hs(st, "n2", "n1")
        st.append({"a": "Advance", "d": 1})
    st.append({"a": "Liveness", "n": "n2"})
    st += [{"a": "Delete", "n": "n1", "k": "k3", "v": ""}, {"a": "Advance", "d": 2}, {"a": "Gc", "n": "n1"}]
    i = len(st)
    st += [{"a": "CreateSyn", "n": "n1", "to": "n2"}, {"a": "Process", "n": "n2", "m": i}]   # heartbeat only
    st.append({"a": "Liveness", "n": "n2"})
    _hs(st, "n2", "n1")
    st.append({"a": "Liveness", "n": "n2"})
    st.append({"a": "Liveness", "n": "n2"})
    for pred in (None, ["k1", "v1"], ["k3", "v3"]):
        h = {"nodes": ["n1", "n2"], "grace": 2, "fd": fd}
        c = dict(fdc, Grace=2)
        if pred:
            h["pred"] = pred
            c.update(PredKey=json.dumps(pred[0]), PredVal=json.dumps(pred[1]))
        out.append(("w_live_reset" + ("_" + pred[0] if pred else ""), h, c, st, False))
    return out


def schedule_traces(tier, seed):
    """Membership schedules: observer n1 and peers n2..n4.  In every epoch each peer is either talking
    (one complete handshake with n1) or silent; epochs end with a clock advance and, in some epochs only,
    an evaluation at n1 -- so several members change state in one evaluation (one dies while another
    becomes live, with equal or different max versions), dead members are removed and come back.
    Returns [(name, hcfg, constants, [steps, ...], nogc)]."""
    import random
    rnd = random.Random(seed * 7919 + 5)
    out = []
    n = 120 if tier == "quick" else 1500
    for pred in (None, ["k1", "v1"]):
        h = {"nodes": ["n1", "n2", "n3", "n4"], "grace": 1000, "fd": FD_SMALL}
        c = dict(FD_CONST, Grace=1000)
        if pred:
            h["pred"] = pred
            c.update(PredKey=json.dumps(pred[0]), PredVal=json.dumps(pred[1]))
        behaviours = []
        for _ in range(n):
            st = []
            peers = ["n2", "n3", "n4"][:rnd.choice([2, 3])]
            for p in peers:        # 0, 1 or 2 writes each: equal or different max versions
                for j in range(rnd.choice([0, 1, 1, 2])):
                    st.append({"a": "Set", "n": p, "k": "k1" if j == 0 else "k2",
                               "v": rnd.choice(["v1", "v1", "v2"])})
            epochs = rnd.randint(5, 9)
            # each peer: an on/off pattern with few switches (a member stays up or down for a while)
            talk = {}
            for p in peers:
                on = rnd.random() < 0.6
                pat = []
                for e in range(epochs):
                    if rnd.random() < 0.3:
                        on = not on
                    pat.append(on)
                talk[p] = pat
            # in a third of the schedules one peer writes once more in some epoch and the observer fetches that
            # newer state through the external catch-up entry point while the peer is (typically) live
            cu_peer = rnd.choice(peers) if rnd.random() < 0.34 else None
            cu_epoch = rnd.randint(2, epochs - 2)
            nwrites = {p: sum(1 for x in st if x.get("a") == "Set" and x.get("n") == p) for p in peers}
            for e in range(epochs):
                order = [p for p in peers if talk[p][e]]
                rnd.shuffle(order)
                for p in order:
                    if rnd.random() < 0.5:
                        _hs(st, p, "n1")
                    else:
                        _hs(st, "n1", p)
                if cu_peer is not None and e == cu_epoch:
                    ver = nwrites[cu_peer] + 1
                    st.append({"a": "Set", "n": cu_peer, "k": "k3", "v": "v1"})
                    kvs = {"k3": {"val": "v1", "ver": ver, "st": "Set"}}
                    if nwrites[cu_peer] >= 1:
                        kvs["k1"] = {"val": [x for x in st if x.get("a") == "Set" and x.get("n") == cu_peer and x["k"] == "k1"][-1]["v"],
                                     "ver": 1, "st": "Set"}
                    if nwrites[cu_peer] >= 2:
                        kvs["k2"] = {"val": [x for x in st if x.get("a") == "Set" and x.get("n") == cu_peer and x["k"] == "k2"][-1]["v"],
                                     "ver": 2, "st": "Set"}
                    st.append({"a": "Catchup", "n": "n1", "x": cu_peer, "kvs": kvs, "max": ver, "gc": 0})
                st.append({"a": "Advance", "d": rnd.choice([1, 1, 2, 3])})
                if rnd.random() < 0.45 or e == epochs - 1:
                    st.append({"a": "Liveness", "n": "n1"})
            behaviours.append(st)
        out.append(("sched" + ("_pred" if pred else ""), h, c, behaviours, True))
    # a peer restarts on the same address under the next generation while the observer still has the old
    # incarnation live: two members with one address, equal or different max versions, one of them
    # leaving or joining the live set at a time
    behaviours = []
    for _ in range(n // 2):
        st = []
        for p in ("n2", "n2~1", "n3"):
            for j in range(rnd.choice([0, 1, 1]) if p != "n2~1" else 0):
                st.append({"a": "Set", "n": p, "k": "k1", "v": "v1"})
        if rnd.random() < 0.7:      # the new incarnation repeats the old one's writes (equal max version)
            st += [dict(e, n="n2~1") for e in st if e["n"] == "n2"]
        epochs = rnd.randint(6, 10)
        switch = rnd.randint(2, epochs - 3)
        overlap = rnd.choice([0, 1, 2])
        for e in range(epochs):
            talking = ["n3"] if rnd.random() < 0.7 else []
            if e < switch + overlap:
                talking.append("n2")
            if e >= switch:
                talking.append("n2~1")
            rnd.shuffle(talking)
            for p in talking:
                if rnd.random() < 0.5:
                    _hs(st, p, "n1")
                else:
                    _hs(st, "n1", p)
            st.append({"a": "Advance", "d": rnd.choice([1, 1, 2, 3])})
            if rnd.random() < 0.6 or e == epochs - 1:
                st.append({"a": "Liveness", "n": "n1"})
        behaviours.append(st)
    out.append(("sched_rs", {"nodes": ["n1", "n2", "n3", "n2~1"], "grace": 1000, "fd": FD_SMALL},
                dict(FD_CONST, Grace=1000), behaviours, True))
    return out


def trace_constants(over):
    c = dict(BASE)
    c.update({"Node": ("<-", "MC_Node"), "Writers": ("<-", "MC_Node"), "Key": "{}", "Val": "{}",
              "Advances": "{}", "TrackHb": "TRUE", "Enable": "{}", "MaxVer": 0, "MaxInflight": 0,
              "MaxClock": 0, "KeepPath": "FALSE"})
    c.update(over)
    return c


def tmp(name):
    return os.path.join(vlib.WORK, "tmp", name)


def prop_formulas(prop, nogc):
    f = FORMULAS[prop]
    props = list(f["props"]) + (list(f.get("nogc", [])) if nogc else [])
    return list(f["inv"]), props


# ------------------------------------------------------------------ trace helpers

def split_traces(path):
    """Returns list of traces; each a list of raw lines (first line is the Reset event)."""
    traces = []
    with open(path) as fh:
        for line in fh:
            if '"a":"Reset"' in line:
                traces.append([line])
            elif traces:
                traces[-1].append(line)
    return traces


def write_traces(path, traces):
    with open(path, "w") as fh:
        for t in traces:
            fh.writelines(t)


def steps_of_events(lines):
    """Rebuilds the driver's step list from recorded events (index field `i`; gaps are Nops)."""
    evs = [json.loads(x) for x in lines if '"a":"Reset"' not in x]
    if not evs:
        return []
    n = max(e.get("i", j) for j, e in enumerate(evs)) + 1
    steps = [{"a": "Nop"} for _ in range(n)]
    for j, e in enumerate(evs):
        st = {k: e[k] for k in ("a", "n", "k", "v", "to", "m", "d", "x", "kvs", "max", "gc") if k in e}
        if e["a"] == "Inject":
            st["msg"] = e["msg"]
        steps[e.get("i", j)] = st
    return steps


def validate_batch(trace_path, consts, label, nogc, excluded=(), max_rounds=6):
    """TLC trace validation of a file of Reset-separated traces. Returns
    (n_traces, n_events, accepted_count, rejected=[(lines, event_index_in_trace, why)])."""
    props = [f for f in ALL_PROPS + ["C07_Size"] + (["C13_Exact"] if nogc else []) if f not in excluded]
    cfg = vlib.write_cfg(tmp(f"trace_{label}.cfg"), "TraceSpec", consts,
                         invariants=[f for f in ALL_INV + TRACE_ONLY_INV if f not in excluded],
                         properties=props, view="TraceView", post="TraceAccepted")
    traces = split_traces(trace_path)
    total = len(traces)
    nev = sum(len(t) for t in traces)
    rejected = []
    cur = traces
    path = trace_path
    for rnd in range(max_rounds):
        if not cur:
            break
        accepted, info = vlib.validate_trace("MC_TraceGossip.tla", cfg, path, timeout=3000)
        if accepted:
            return total, nev, len(cur), rejected
        at = info.get("rejected_at")
        errs = " ".join(info.get("errors", []))
        if at is None:
            # a formula failed on a step the spec accepted: the bad state follows line distinct-1
            at = max(info.get("distinct", 2) - 1, 1)
        pos = 0
        hit = None
        for ti, t in enumerate(cur):
            if pos + len(t) >= at:
                hit = ti
                break
            pos += len(t)
        if hit is None:
            hit = len(cur) - 1
            pos = sum(len(t) for t in cur[:-1])
        rejected.append((cur[hit], at - pos, errs[:600]))
        cur = cur[:hit] + cur[hit + 1:]
        path = tmp(f"trace_{label}_r{rnd}.ndjson")
        write_traces(path, cur)
    for t in cur:
        rejected.append((t, None, "not validated (too many rejections in this batch)"))
    return total, nev, 0, rejected


def _observe_once(path, cfg):
    """One ObserveGossip run. Returns None (all formulas hold) or (formula, line_index)."""
    env = {"TRACE": path, "JAVA_TOOL_OPTIONS": vlib.TRACE_JAVA_OPTS + " -Xmx4g"}
    r, text = vlib.run_tlc("MC_ObserveGossip.tla", cfg, workers=1, timeout=3000, env=env)
    if "Parsing or semantic analysis failed" in text:
        raise vlib.ToolError("observer spec failed to parse: " + text[-800:])
    m = re.search(r"(Invariant|Action property) (\w+) is violated", text)
    inc = re.search(r'"OBSERVE-INCOMPLETE at event", (\d+)', text)
    if not m and not inc:
        if "Error:" in text:
            raise vlib.ToolError("observer failed: " + text[-1200:])
        return None
    d = int(inc.group(1)) if inc else r["distinct"]
    return (m.group(2) if m else "evaluation-error", max(d - 1, 1))


def observe(lines_list, consts, inv, props, label):
    """Runs ObserveGossip with the given formulas on the given real traces.
    Returns [(trace_index, formula, event_index_in_trace)], each confirmed on its trace alone."""
    if not inv and not props:
        return []
    cfg = vlib.write_cfg(tmp(f"obs_{label}.cfg"), "ObsSpec", consts, invariants=inv,
                         properties=props, view="ObsView", post="ObsDone")
    found = []
    cur = list(enumerate(lines_list))
    for rnd in range(4):
        if not cur:
            break
        path = tmp(f"obs_{label}_{rnd}.ndjson")
        write_traces(path, [t for _, t in cur])
        r = _observe_once(path, cfg)
        os.remove(path)
        if r is None:
            break
        formula, at = r
        pos = 0
        hit = len(cur) - 1
        for ti, (_, t) in enumerate(cur):
            if pos + len(t) >= at:
                hit = ti
                break
            pos += len(t)
        confirmed = None
        for cand in (hit, hit - 1, hit + 1):
            if 0 <= cand < len(cur):
                p1 = tmp(f"obs_{label}_one.ndjson")
                write_traces(p1, [cur[cand][1]])
                r1 = _observe_once(p1, cfg)
                os.remove(p1)
                if r1 is not None:
                    confirmed = (cand, r1[0], r1[1] - 1)
                    break
        if confirmed is None:
            raise vlib.ToolError("observer reported a violation that does not reproduce on any "
                                 "single trace")
        found.append((cur[confirmed[0]][0], confirmed[1], confirmed[2]))
        cur = cur[:confirmed[0]] + cur[confirmed[0] + 1:]
    return found


def run_harness(args, stdin_text=None, out_path=None):
    binp = vlib.harness_bin("gossip")
    if out_path:
        with open(out_path, "w") as fh:
            p = subprocess.run([binp] + args, input=stdin_text, text=True, stdout=fh)
        if p.returncode != 0:
            raise vlib.ToolError("gossip harness failed: " + " ".join(args)[:200])
        return None
    p = subprocess.run([binp] + args, input=stdin_text, text=True, stdout=subprocess.PIPE)
    if p.returncode != 0:
        raise vlib.ToolError("gossip harness failed: " + " ".join(args)[:200])
    return p.stdout


def strip(e):
    if isinstance(e, dict):
        return {k: strip(v) for k, v in e.items() if v is not None}
    if isinstance(e, list):
        return [strip(x) for x in e]
    return e


def hcfg_of(dcfg):
    return {k: dcfg[k] for k in ("nodes", "grace", "fd", "val_size", "pred", "clusters") if k in dcfg}


def jsonable(over):
    return {k: (list(v) if isinstance(v, tuple) else v) for k, v in over.items()}


def unjson(over):
    return {k: (tuple(v) if isinstance(v, list) else v) for k, v in over.items()}


# ------------------------------------------------------------------ the shared pipeline

def family_key(tier, seed):
    h = hashlib.sha256()
    h.update(vlib.spec_hash(FILES).encode())
    h.update(vlib.repo_hash().encode())
    for dp, dn, fn in sorted(os.walk(os.path.join(vlib.HARNESS, "src"))):
        dn.sort()
        for f in sorted(fn):
            with open(os.path.join(dp, f), "rb") as fh:
                h.update(fh.read())
    with open(__file__, "rb") as fh:
        h.update(fh.read())
    h.update(f"{tier}:{seed}:{os.environ.get('VERIF_DEV_MODELS', '')}:{os.environ.get('VERIF_DEV_SCEN', '')}".encode())
    return h.hexdigest()[:20]


def _dev_filter(env, names):
    """Development aid: VERIF_DEV_MODELS / VERIF_DEV_SCEN (comma lists, "-" for none) restrict a run to
    some model configurations / driver scenarios.  Never set by registered commands."""
    v = os.environ.get(env)
    if v is None or v == "":
        return lambda n: True
    keep = set(v.split(","))
    return lambda n: n in keep


def family_run(tier, seed):
    key = family_key(tier, seed)
    cpath = os.path.join(vlib.WORK, "cache", f"family_{key}.json")
    if os.path.exists(cpath):
        with open(cpath) as fh:
            fam = json.load(fh)
        fam["cached"] = True
        return fam
    fam = {"states": 0, "transitions": 0, "conform": 0, "models": {}, "drivers": {},
           "divergent": [], "samples": [], "cached": False, "coverage_hits": {}}

    # ---------------- spec -> code
    _mf = _dev_filter("VERIF_DEV_MODELS", None)
    _dev_models = os.environ.get("VERIF_DEV_MODELS", "")
    for name in ([n for n in MODEL_CFGS if _mf(n)] if _dev_models else TIER_MODELS[tier]):
        over, hcfg, nogc = MODEL_CFGS[name][:3]
        extra_inv = MODEL_CFGS[name][3] if len(MODEL_CFGS[name]) > 3 else []
        mopts = MODEL_CFGS[name][4] if len(MODEL_CFGS[name]) > 4 else {}
        c = dict(BASE)
        c.update(over)
        cfgp = vlib.write_cfg(tmp(f"model_{name}.cfg"), "Spec", c, invariants=ALL_INV + MODEL_ONLY_INV + extra_inv,
                              properties=ALL_PROPS + (["C13_Exact"] if nogc else []),
                              view="View", constraint="Bounded",
                              action_constraint=mopts.get("emit", "EmitEdge"))
        m = vlib.cached_model_run("gossip_" + name, "MC_Gossip.tla", cfgp, FILES[:4], workers=6,
                                  timeout=3400, heap="24g",
                                  corpus=bool(mopts.get("corpus")) and tier == "quick")
        if not m["ok"]:
            raise vlib.ToolError(f"Gossip model {name}: formula fails on the MODEL (specification "
                                 "issue, not a verdict on the code): " + "; ".join(m["errors"][:2]))
        fam["states"] += m["distinct"]
        fam["transitions"] += m["generated"]
        outs, fed = vlib.pipe_edges_to(m["edges_file"],
                                       [vlib.harness_bin("gossip"), "replay",
                                        json.dumps(dict(hcfg, max_report=mopts.get("report", 4)))], procs=6)
        summ = [o for o in outs if o.get("summary")]
        div = [o for o in outs if o.get("diverged") is True]
        nb = sum(s["behaviours"] for s in summ)
        nd = sum(s["diverged"] for s in summ)
        fam["conform"] += nb - nd
        fam["models"][name] = {"distinct": m["distinct"], "generated": m["generated"],
                               "behaviours_replayed": nb, "diverged": nd,
                               "steps": sum(s["steps"] for s in summ), "cached_model": m.get("cached"),
                               "export": mopts.get("emit", "EmitEdge"),
                               "from_committed_corpus": m.get("from_committed_corpus", False)}
        if len(fam["samples"]) < 2:
            fam["samples"] += vlib.sample_edges(m["edges_file"], 1)
        over_t = {k: v for k, v in over.items() if k in ("Grace", "PhiN", "PhiD", "Window", "MaxInterval",
                                                         "Prior", "DeadGrace", "PredKey", "PredVal",
                                                         "Budget", "Cluster")}
        over_t.setdefault("Grace", c["Grace"])
        # a replay that differs from TLC's prediction may still be a behaviour of the specification
        # (shuffle among equally stale members, float rounding exactly at the phi threshold): the
        # recorded real trace is validated against the actions before it counts as drift
        cand = []
        for o in div[:8]:
            lines = ['{"a":"Reset"}\n'] + [json.dumps(strip(dict(e, i=i))) + "\n"
                                          for i, e in enumerate(o["events"])
                                          if e.get("a") not in ("Nop", "Lose") and not e.get("skipped")]
            cand.append((lines, o["steps"]))
        if cand:
            cpath = tmp(f"replaydiv_{name}_{os.getpid()}.ndjson")
            write_traces(cpath, [c[0] for c in cand])
            _t, _n, acc, rej = validate_batch(cpath, trace_constants(over_t), f"rd_{name}_{os.getpid()}", nogc,
                                              max_rounds=len(cand) + 1)
            fam["models"][name]["diverged_but_accepted_by_trace_validation"] = acc
            rejected_lines = {"".join(r[0]) for r in rej}
            for lines, steps in cand:
                if "".join(lines) in rejected_lines:
                    fam["divergent"].append({"lines": lines, "over": jsonable(over_t),
                                             "hcfg": {k: v for k, v in hcfg.items() if k != "strip_hb"},
                                             "steps": steps, "nogc": nogc,
                                             "note": f"replay of model {name} diverged"})
            # further divergent replays (focused exports report many) go to the judges without the
            # conformance double check: being judged needs no non-conformance, only a real execution
            if rej:
                for o in div[8:]:
                    lines = ['{"a":"Reset"}\n'] + [json.dumps(strip(dict(e, i=i))) + "\n"
                                                  for i, e in enumerate(o["events"])
                                                  if e.get("a") not in ("Nop", "Lose") and not e.get("skipped")]
                    fam["divergent"].append({"lines": lines, "over": jsonable(over_t),
                                             "hcfg": {k: v for k, v in hcfg.items() if k != "strip_hb"},
                                             "steps": o["steps"], "nogc": nogc,
                                             "note": f"replay of model {name} diverged (not trace-validated)"})

    # ---------------- code -> spec (scenarios are independent: run them concurrently)
    _sf = _dev_filter("VERIF_DEV_SCEN", None)

    def one_scenario(sc):
        sname, dcfg, over, nogc = sc[:4]
        excluded = sc[4] if len(sc) > 4 else []
        tpath = tmp(f"drv_{sname}_{os.getpid()}.ndjson")
        run_harness(["drive", json.dumps(dcfg)], out_path=tpath)
        consts = trace_constants(over)
        total, nev, acc, rej = validate_batch(tpath, consts, f"{sname}_{os.getpid()}", nogc, excluded)
        div = []
        for (lines, at, errs) in rej:
            div.append({"lines": lines, "over": jsonable(over), "hcfg": hcfg_of(dcfg),
                        "steps": steps_of_events(lines), "nogc": nogc, "excluded": excluded,
                        "note": f"driver {sname}: trace rejected at event {at}: {errs[:200]}"})
        hits = coverage_hits(tpath)
        with open(tpath) as fh:
            sample = [json.loads(x) for x in fh.readlines()[1:3]]
        os.remove(tpath)
        return sname, {"traces": total, "events": nev, "accepted": acc, "rejected": len(rej)}, div, hits, sample

    from concurrent.futures import ThreadPoolExecutor
    with ThreadPoolExecutor(max_workers=5) as ex:
        results = list(ex.map(one_scenario, [sc for sc in scenarios(tier, seed) if _sf(sc[0])]))
    for sname, stats, div, hits, sample in results:
        fam["conform"] += stats["accepted"]
        fam["drivers"][sname] = stats
        fam["divergent"] += div
        for k, v in hits.items():
            fam["coverage_hits"][k] = fam["coverage_hits"].get(k, 0) + v
        if len(fam["samples"]) < 4:
            fam["samples"].append(sample)
    # ---------------- directed witness scenarios
    for (wname, hcfg, over, steps, nogc) in witness_scenarios():
        tpath = tmp(f"wit_{wname}_{os.getpid()}.ndjson")
        run_harness(["trace", json.dumps(hcfg)], stdin_text=json.dumps({"steps": steps}) + "\n", out_path=tpath)
        total, nev, acc, rej = validate_batch(tpath, trace_constants(over), f"{wname}_{os.getpid()}", nogc)
        fam["conform"] += acc
        fam["drivers"][wname] = {"traces": total, "events": nev, "accepted": acc, "rejected": len(rej)}
        for (lines, at, errs) in rej:
            fam["divergent"].append({"lines": lines, "over": jsonable(over), "hcfg": hcfg, "steps": steps,
                                     "nogc": nogc, "excluded": [],
                                     "note": f"witness {wname}: rejected at event {at}: {errs[:200]}"})
        os.remove(tpath)
    # ---------------- membership schedules (generated): swaps, simultaneous changes, removal and return
    for (wname, hcfg, over, behaviours, nogc) in (schedule_traces(tier, seed) if _sf("sched") else []):
        tpath = tmp(f"sched_{wname}_{os.getpid()}.ndjson")
        run_harness(["trace", json.dumps(hcfg)],
                    stdin_text="".join(json.dumps({"steps": b}) + "\n" for b in behaviours), out_path=tpath)
        total, nev, acc, rej = validate_batch(tpath, trace_constants(over), f"{wname}_{os.getpid()}", nogc)
        fam["conform"] += acc
        fam["drivers"][wname] = {"traces": total, "events": nev, "accepted": acc, "rejected": len(rej)}
        for k_, v_ in coverage_hits(tpath).items():
            fam["coverage_hits"][k_] = fam["coverage_hits"].get(k_, 0) + v_
        for (lines, at, errs) in rej:
            fam["divergent"].append({"lines": lines, "over": jsonable(over), "hcfg": hcfg,
                                     "steps": steps_of_events(lines), "nogc": nogc, "excluded": [],
                                     "note": f"membership schedule {wname}: rejected at event {at}: {errs[:200]}"})
        os.remove(tpath)
    # ---------------- server level: several real spawn_chitchat loops on a controlled transport
    for (k, ntr, nsteps) in ([(3, 12, 120), (2, 8, 100)] if tier == "quick" else [(3, 150, 150), (2, 60, 120), (4, 40, 150)]):
        tpath = tmp(f"srvcl_{k}_{os.getpid()}.ndjson")
        with open(tpath, "w") as fh:
            p = subprocess.run([vlib.harness_bin("server"), "cluster", str(seed * 100 + k), str(ntr), str(k), str(nsteps)],
                               stdout=fh)
        if p.returncode != 0:
            raise vlib.ToolError("server cluster driver failed")
        over = {"Grace": 4, "PhiN": 4, "PhiD": 1, "Window": 3, "MaxInterval": 10, "Prior": 3, "DeadGrace": 12}
        total, nev, acc, rej = validate_batch(tpath, trace_constants(over), f"srvcl{k}_{os.getpid()}", False)
        fam["conform"] += acc
        fam["drivers"][f"server_cluster_{k}"] = {"traces": total, "events": nev, "accepted": acc, "rejected": len(rej)}
        for (lines, at, errs) in rej:
            fam["divergent"].append({"lines": lines, "over": jsonable(over), "hcfg": {"server_cluster": k}, "steps": [],
                                     "nogc": False, "excluded": [],
                                     "note": f"server-level cluster of {k} real loops: rejected at event {at}: {errs[:200]}"})
        os.remove(tpath)
    with open(cpath + ".part", "w") as fh:
        json.dump(fam, fh)
    os.replace(cpath + ".part", cpath)
    return fam


def coverage_hits(tpath):
    """Vacuity guard: how often the situations the formulas talk about occurred in real traces."""
    c = {}

    def inc(k, n=1):
        c[k] = c.get(k, 0) + n
    prev_live = {}
    with open(tpath) as fh:
        for line in fh:
            e = json.loads(line)
            inc("events")
            if e.get("a") == "Reset":
                prev_live = {}
            p = e.get("post")
            if p and e.get("n"):
                lv = set(p["live"]) if p["live"] else set()
                old = prev_live.get(e["n"])
                if e["a"] == "Liveness" and old is not None:
                    if lv != old:
                        inc("evaluations_changing_live_set")
                    if (old - lv) and (lv - old):
                        inc("evaluations_swapping_members")
                prev_live[e["n"]] = lv
            if p:
                if p["dead"]:
                    inc("states_with_dead_member")
                if p["sched"]:
                    inc("states_with_scheduled_member")
                if len(p["live"]) > 1:
                    inc("states_with_live_peer")
                if e["a"] == "Liveness":
                    inc("evaluations")
                for x, cp in p["ns"].items():
                    if cp["gc"] > cp["max"]:
                        inc("copies_gc_above_max")
            o = e.get("out")
            if o and o.get("delta"):
                for x, nd in o["delta"].items():
                    if nd["from"] == 0 and nd["gc"] > 0:
                        inc("reset_deltas")
                    if not nd["kvs"] and nd["max"] == 0:
                        inc("deltas_cut_before_first_entry")
            if o and o.get("t") == "Bad":
                inc("bad_cluster_replies")
            if e["a"] == "Catchup":
                inc("catchup_calls")
            if e.get("panic"):
                inc("panics")
    return c


KF2_STEPS = [{"a": "Set", "n": "n3", "k": "k1", "v": "xk1"}, {"a": "Set", "n": "n3", "k": "k2", "v": "xk2"}, {"a": "Set", "n": "n3", "k": "k3", "v": "xk3"}, {"a": "Set", "n": "n2", "k": "j1", "v": "yj1"}, {"a": "CreateSyn", "n": "n1", "to": "n2"}, {"a": "Process", "n": "n2", "m": 4}, {"a": "Process", "n": "n1", "m": 5}, {"a": "Process", "n": "n2", "m": 6}, {"a": "CreateSyn", "n": "n1", "to": "n3"}, {"a": "Process", "n": "n3", "m": 8}, {"a": "Process", "n": "n1", "m": 9}, {"a": "Process", "n": "n3", "m": 10}, {"a": "CreateSyn", "n": "n2", "to": "n3"}, {"a": "Process", "n": "n3", "m": 12}, {"a": "Process", "n": "n2", "m": 13}, {"a": "Process", "n": "n3", "m": 14}, {"a": "CreateSyn", "n": "n2", "to": "n1"}, {"a": "Process", "n": "n1", "m": 16}, {"a": "Process", "n": "n2", "m": 17}, {"a": "Process", "n": "n1", "m": 18}, {"a": "CreateSyn", "n": "n3", "to": "n1"}, {"a": "Process", "n": "n1", "m": 20}, {"a": "Process", "n": "n3", "m": 21}, {"a": "Process", "n": "n1", "m": 22}, {"a": "CreateSyn", "n": "n3", "to": "n2"}, {"a": "Process", "n": "n2", "m": 24}, {"a": "Process", "n": "n3", "m": 25}, {"a": "Process", "n": "n2", "m": 26}, {"a": "CreateSyn", "n": "n1", "to": "n2"}, {"a": "Process", "n": "n2", "m": 28}, {"a": "Process", "n": "n1", "m": 29}, {"a": "Process", "n": "n2", "m": 30}, {"a": "CreateSyn", "n": "n1", "to": "n3"}, {"a": "Process", "n": "n3", "m": 32}, {"a": "Process", "n": "n1", "m": 33}, {"a": "Process", "n": "n3", "m": 34}, {"a": "CreateSyn", "n": "n2", "to": "n3"}, {"a": "Process", "n": "n3", "m": 36}, {"a": "Process", "n": "n2", "m": 37}, {"a": "Process", "n": "n3", "m": 38}, {"a": "CreateSyn", "n": "n2", "to": "n1"}, {"a": "Process", "n": "n1", "m": 40}, {"a": "Process", "n": "n2", "m": 41}, {"a": "Process", "n": "n1", "m": 42}, {"a": "CreateSyn", "n": "n3", "to": "n1"}, {"a": "Process", "n": "n1", "m": 44}, {"a": "Process", "n": "n3", "m": 45}, {"a": "Process", "n": "n1", "m": 46}, {"a": "CreateSyn", "n": "n3", "to": "n2"}, {"a": "Process", "n": "n2", "m": 48}, {"a": "Process", "n": "n3", "m": 49}, {"a": "Process", "n": "n2", "m": 50}, {"a": "CreateSyn", "n": "n1", "to": "n2"}, {"a": "Process", "n": "n2", "m": 52}, {"a": "Process", "n": "n1", "m": 53}, {"a": "Process", "n": "n2", "m": 54}, {"a": "CreateSyn", "n": "n1", "to": "n3"}, {"a": "Process", "n": "n3", "m": 56}, {"a": "Process", "n": "n1", "m": 57}, {"a": "Process", "n": "n3", "m": 58}, {"a": "CreateSyn", "n": "n2", "to": "n3"}, {"a": "Process", "n": "n3", "m": 60}, {"a": "Process", "n": "n2", "m": 61}, {"a": "Process", "n": "n3", "m": 62}, {"a": "CreateSyn", "n": "n2", "to": "n1"}, {"a": "Process", "n": "n1", "m": 64}, {"a": "Process", "n": "n2", "m": 65}, {"a": "Process", "n": "n1", "m": 66}, {"a": "CreateSyn", "n": "n3", "to": "n1"}, {"a": "Process", "n": "n1", "m": 68}, {"a": "Process", "n": "n3", "m": 69}, {"a": "Process", "n": "n1", "m": 70}, {"a": "CreateSyn", "n": "n3", "to": "n2"}, {"a": "Process", "n": "n2", "m": 72}, {"a": "Process", "n": "n3", "m": 73}, {"a": "Process", "n": "n2", "m": 74}, {"a": "Advance", "d": 1}, {"a": "CreateSyn", "n": "n1", "to": "n2"}, {"a": "Process", "n": "n2", "m": 77}, {"a": "Process", "n": "n1", "m": 78}, {"a": "Process", "n": "n2", "m": 79}, {"a": "CreateSyn", "n": "n2", "to": "n1"}, {"a": "Process", "n": "n1", "m": 81}, {"a": "Process", "n": "n2", "m": 82}, {"a": "Process", "n": "n1", "m": 83}, {"a": "Advance", "d": 1}, {"a": "CreateSyn", "n": "n1", "to": "n2"}, {"a": "Process", "n": "n2", "m": 86}, {"a": "Process", "n": "n1", "m": 87}, {"a": "Process", "n": "n2", "m": 88}, {"a": "CreateSyn", "n": "n2", "to": "n1"}, {"a": "Process", "n": "n1", "m": 90}, {"a": "Process", "n": "n2", "m": 91}, {"a": "Process", "n": "n1", "m": 92}, {"a": "Advance", "d": 1}, {"a": "CreateSyn", "n": "n1", "to": "n2"}, {"a": "Process", "n": "n2", "m": 95}, {"a": "Process", "n": "n1", "m": 96}, {"a": "Process", "n": "n2", "m": 97}, {"a": "CreateSyn", "n": "n2", "to": "n1"}, {"a": "Process", "n": "n1", "m": 99}, {"a": "Process", "n": "n2", "m": 100}, {"a": "Process", "n": "n1", "m": 101}, {"a": "Liveness", "n": "n1"}, {"a": "Advance", "d": 4}, {"a": "CreateSyn", "n": "n1", "to": "n2"}, {"a": "Process", "n": "n2", "m": 105}, {"a": "Process", "n": "n1", "m": 106}, {"a": "Process", "n": "n2", "m": 107}, {"a": "CreateSyn", "n": "n2", "to": "n1"}, {"a": "Process", "n": "n1", "m": 109}, {"a": "Process", "n": "n2", "m": 110}, {"a": "Process", "n": "n1", "m": 111}, {"a": "Liveness", "n": "n2"}, {"a": "Liveness", "n": "n1"}, {"a": "Set", "n": "n2", "k": "j2", "v": "yj2"}, {"a": "CreateSyn", "n": "n1", "to": "n2"}, {"a": "Process", "n": "n2", "m": 116}, {"a": "Process", "n": "n1", "m": 117}, {"a": "Process", "n": "n2", "m": 118}]
KF2_HCFG = {"nodes": ["n1", "n2", "n3"], "grace": 1000, "val_size": 30000,
            "fd": {"phi": 2.0, "window": 3, "max_interval": 10, "initial": 1, "dead_grace": 6}}
KF2_CONST = {"Grace": 1000, "Budget": 2, "PhiN": 2, "PhiD": 1, "Window": 3, "MaxInterval": 10, "Prior": 1, "DeadGrace": 6}


def kf2_witness(res):
    """Replays the KF-2 history (budget hogging by a member the receiver has scheduled for deletion)
    on the real code: KNOWN-FINDING iff the strict progress formula fails and the exempted one holds."""
    kf = [f for f in vlib.load_known_findings() if f.get("id") == "KF-2" and f.get("status") == "open"]
    if not kf:
        return
    steps = [dict(s) for s in KF2_STEPS]
    tpath = tmp("kf2.ndjson")
    run_harness(["trace", json.dumps(KF2_HCFG)], stdin_text=json.dumps({"steps": steps}) + "\n", out_path=tpath)
    lines = split_traces(tpath)[0]
    # flag the final handshake (last four events) as a complete handshake n1 -> n2
    evs = [json.loads(x) for x in lines]
    for k, e in enumerate(evs[-4:], start=1):
        e["hs"] = {"k": k, "a": "n1", "b": "n2"}
    lines = [json.dumps(e) + "\n" for e in evs]
    consts = trace_constants(KF2_CONST)
    strict = observe([lines], consts, [], ["C01_ProgressObsStrict"], "kf2s")
    exempt = observe([lines], consts, [], ["C01_ProgressObs"], "kf2e")
    if strict and not exempt:
        res.known.append("KF-2 a complete handshake makes no progress although the peer holds newer deliverable "
                         "data: the reply budget is spent on a dead member that the receiver omitted from its digest "
                         "because it has it scheduled for deletion (the sender treats it as never seen, which has "
                         "priority): still reproduces")
        res.coverage_extra["kf2_witness"] = {"strict_formula_fails": True, "exempted_formula_holds": True}
    elif exempt:
        res.violation({"kind": "gossip-trace", "hcfg": KF2_HCFG, "steps": steps, "formula": exempt[0][1],
                       "consts": jsonable(KF2_CONST), "nogc": False},
                      "KF-2 witness violates C01 outside the known-finding signature")
    else:
        res.coverage_extra["kf2_witness"] = {"reproduces": False}


KF1_STEPS = [
    {"a": "Set", "n": "n1", "k": "k1", "v": "a"}, {"a": "Set", "n": "n1", "k": "k2", "v": "b"},
    {"a": "CreateSyn", "n": "n2", "to": "n1"}, {"a": "Process", "n": "n1", "m": 2},
    {"a": "Process", "n": "n2", "m": 3}, {"a": "Process", "n": "n1", "m": 4},
    {"a": "Delete", "n": "n1", "k": "k2", "v": ""}, {"a": "Advance", "d": 2}, {"a": "Gc", "n": "n1"},
    {"a": "CreateSyn", "n": "n3", "to": "n1"}, {"a": "Process", "n": "n1", "m": 9},
    {"a": "Process", "n": "n3", "m": 10},
    {"a": "CreateSyn", "n": "n3", "to": "n2"}, {"a": "Process", "n": "n2", "m": 12},
    {"a": "Process", "n": "n3", "m": 13},
    {"a": "CreateSyn", "n": "n3", "to": "n1"}, {"a": "Process", "n": "n1", "m": 15},
    {"a": "Process", "n": "n3", "m": 16},
]


def kf1_witness(res):
    """Replays the KF-1 history on the real code: reports KNOWN-FINDING iff it still reproduces."""
    kf = [f for f in vlib.load_known_findings() if f.get("id") == "KF-1" and f.get("status") == "open"]
    if not kf:
        return
    hc = {"nodes": ["n1", "n2", "n3"], "grace": 2}
    tpath = tmp("kf1.ndjson")
    run_harness(["trace", json.dumps(hc)], stdin_text=json.dumps({"steps": KF1_STEPS}) + "\n",
                out_path=tpath)
    consts = trace_constants({"Grace": 2})
    lines = split_traces(tpath)
    strict = observe(lines, consts, ["C02_Strict"], [], "kf1s")
    exempt = observe(lines, consts, ["C02_NoResurrection"], [], "kf1e")
    if strict and not exempt:
        res.known.append("KF-1 resurrection through an incremental delta accepted by a mid-reset copy "
                         "(watermark above max version) from a lower-watermark peer: still reproduces "
                         f"({kf[0].get('text', '')[:120]})")
        res.coverage_extra["kf1_witness"] = {"strict_formula_fails_at_event": strict[0][2],
                                             "exempted_formula_holds": True}
    elif exempt:
        res.violation({"kind": "gossip-trace", "hcfg": hc, "steps": KF1_STEPS, "formula": exempt[0][1],
                       "consts": {"Grace": 2}, "nogc": False},
                      "KF-1 witness violates C02 outside the known-finding signature")
    else:
        res.coverage_extra["kf1_witness"] = {"reproduces": False}


def run(prop, tier, seed, replay=None):
    res = vlib.Result(prop, tier, seed, "model_checking")
    res.coverage_extra = {}
    vlib.build_harness()

    if replay:
        with open(replay) as fh:
            obj = json.load(fh)
        if obj.get("kind") == "agreement-case":
            from checks import agreement
            return agreement.run(prop, tier, seed, replay=replay)
        if obj.get("kind") == "server-cluster-trace":
            # recorded from real server loops (scheduling is not re-driven step by step): re-judge the record
            consts = trace_constants(unjson(obj.get("consts", {})))
            inv, props = prop_formulas(prop, False)
            for (_, formula, at) in observe([obj["lines"]], consts, inv, props, "replay"):
                res.violation(obj, f"{formula} fails at event {at}")
            res.coverage = {"states": 1, "transitions": len(obj["lines"]), "traces_validated_against_impl": 1,
                            "samples": [json.loads(obj["lines"][1])]}
            return res.finish()
        tpath = tmp("replay.ndjson")
        run_harness(["trace", json.dumps(obj["hcfg"])],
                    stdin_text=json.dumps({"steps": obj["steps"]}) + "\n", out_path=tpath)
        consts = trace_constants(unjson(obj.get("consts", {})))
        inv, props = prop_formulas(prop, obj.get("nogc", False))
        v = observe(split_traces(tpath), consts, inv, props, "replay")
        for (_, formula, at) in v:
            res.violation(obj, f"{formula} fails at event {at}")
        res.coverage = {"states": 1, "transitions": len(obj["steps"]),
                        "traces_validated_against_impl": 1, "samples": [obj["steps"][:6]]}
        return res.finish()

    fam = family_run(tier, seed)

    # ---------------- judge every non-conforming real execution with the property's own formulas
    amplified = 0
    groups = {}
    for d in fam["divergent"]:
        gk = json.dumps([d["over"], d["hcfg"], d["nogc"], d.get("excluded", [])], sort_keys=True)
        groups.setdefault(gk, []).append(d)
    for gi, (gk, items) in enumerate(groups.items()):
        over, hcfg, nogc = unjson(items[0]["over"]), items[0]["hcfg"], items[0]["nogc"]
        consts = trace_constants(over)
        inv, props = prop_formulas(prop, nogc)
        excl = items[0].get("excluded", [])
        inv = [f for f in inv if f not in excl]
        props = [f for f in props if f not in excl]
        v = observe([it["lines"] for it in items], consts, inv, props, f"{prop}_g{gi}")
        for (ti, formula, at) in v:
            obj = {"kind": "gossip-trace", "hcfg": hcfg, "consts": jsonable(over),
                   "steps": items[ti]["steps"], "formula": formula, "nogc": nogc}
            if "server_cluster" in hcfg:
                obj.update(kind="server-cluster-trace", lines=items[ti]["lines"])
            res.violation(obj, f"{formula} fails on a real execution (event {at})")
        if not v:
            pre = [it["steps"] for it in items[:6] if it["steps"]] if "server_cluster" not in hcfg else []
            if pre:
                pfile = tmp(f"prefix_{prop}_{gi}.json")
                with open(pfile, "w") as fh:
                    json.dump(pre, fh)
                k = 40 if tier == "quick" else 200
                dcfg = dict(hcfg, keys=["k1", "k2", "k3"], advances=[1, 2, 3], seed=seed * 77 + gi,
                            traces=k, len=50, prefix_file=pfile, w_sync=30, nvals=2,
                            w_live=(10 if "fd" in hcfg else 0))
                if prop == "C01":
                    # convergence is judged on a fair phase: short random continuation, then fair rounds
                    dcfg.update(len=8, fair_rounds=4, fair_gc=0)
                apath = tmp(f"amp_{prop}_{gi}.ndjson")
                run_harness(["drive", json.dumps(dcfg)], out_path=apath)
                atr = split_traces(apath)
                amplified += len(atr)
                v2 = observe(atr, consts, inv, props, f"{prop}_a{gi}")
                for (ti, formula, at) in v2:
                    res.violation({"kind": "gossip-trace", "hcfg": hcfg, "consts": jsonable(over),
                                   "steps": steps_of_events(atr[ti]), "formula": formula, "nogc": nogc},
                                  f"{formula} fails on a continuation of a divergent execution "
                                  f"(event {at})")
                os.remove(apath)

    if prop == "C02":
        kf1_witness(res)
    if prop == "C01":
        kf2_witness(res)
    pair_cov = {}
    if prop in ("C04", "C20", "C07"):
        from checks import agreement
        pair_cov = agreement.pairs_stage(res, prop, tier)

    if prop == "C07":
        from checks import budget
        pair_cov.update(budget.budget_stage(res, tier, seed))

    res.coverage = {
        "states": fam["states"], "transitions": fam["transitions"],
        "traces_validated_against_impl": fam["conform"],
        "models": fam["models"], "drivers": fam["drivers"],
        "drift": [{"note": d["note"], "steps": d["steps"][:30]} for d in fam["divergent"][:4]],
        "drift_count": len(fam["divergent"]), "amplified_continuations": amplified,
        "situations_reached_in_real_traces": fam["coverage_hits"],
        "formulas": FORMULAS[prop],
        "samples": fam["samples"],
        "exhaustive": False, "family_result_cached": fam.get("cached", False),
        "checker_cmd": "tlc MC_Gossip (model+export) | harness gossip replay ; harness gossip drive | "
                       "tlc MC_TraceGossip ; non-conforming executions -> tlc MC_ObserveGossip",
    }
    res.coverage.update(res.coverage_extra)
    res.coverage.update(pair_cov)
    res.assumptions = [
        "tokio paused clock = model clock; 1 tick = 1 s",
        "bounded scopes: exhaustive for the listed constants only, sampled beyond",
        "every ChitchatId is used by one incarnation; honest nodes only",
        "unit-size model of the datagram budget (an entry with a ~30/50 KB value costs 1, everything else 0) "
        "is validated on every truncated real reply by trace validation",
        "VIOLATION only if the property's formula fails on a real execution; non-conformance alone is drift",
    ]
    return res.finish()
