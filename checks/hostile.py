"""C09 -- hostile / malformed datagrams.

structure-aware : Hostile.tla = Gossip + an adversary delivering every decodable datagram built
                  from op streams (syntactically valid operations in arbitrary order), digests and
                  cluster ids over small values; the decoder and every assertion on the processing
                  path are transcribed. TLC checks no-panic / monotonic frontiers / set invariants
                  and exports every transition; each is replayed on real nodes (datagrams encoded by
                  the independent codec).
byte level      : random, bit-flipped, truncated, extended, spliced variants of real datagrams
                  (up to 65 507 bytes) delivered to real nodes interleaved with honest traffic; the
                  observer specification evaluates C09's formulas on every logged delivery."""
import json
import os

from lib import vlib
from checks import gossip as G

FILES = ["NodeStateOps.tla", "FdOps.tla", "Gossip.tla", "Hostile.tla", "MC_Hostile.tla",
         "ObserveGossip.tla", "MC_ObserveGossip.tla", "TraceGossip.tla", "MC_TraceGossip.tla"]
INV = ["C12_Sets", "C04_NoPanic"]   # C04_NoPanic: no later (honest or hostile) message aborts the node either
PROPS = ["C09_RecvNoPanic", "C09_UndecodableNoop", "C04_Monotonic"]


def tmp(n):
    return os.path.join(vlib.WORK, "tmp", n)


BIG = 10 ** 9


def compress_ints(lines):
    """TLC integers are 32 bit; hostile datagrams carry arbitrary u64 versions / heartbeats. The
    formulas only COMPARE these fields, so every integer >= 10^9 of a trace is replaced by
    10^9 + its rank among the trace's big integers (order preserving, exact for comparisons)."""
    evs = [json.loads(x) for x in lines]
    big = set()

    def scan(v):
        if isinstance(v, bool):
            return
        if isinstance(v, int):
            if v >= BIG:
                big.add(v)
        elif isinstance(v, dict):
            for x in v.values():
                scan(x)
        elif isinstance(v, list):
            for x in v:
                scan(x)
    for e in evs:
        scan(e)
    if not big:
        return lines
    rank = {v: BIG + i for i, v in enumerate(sorted(big))}

    def sub(v):
        if isinstance(v, bool):
            return v
        if isinstance(v, int):
            return rank.get(v, v)
        if isinstance(v, dict):
            return {k: sub(x) for k, x in v.items()}
        if isinstance(v, list):
            return [sub(x) for x in v]
        return v
    return [json.dumps(sub(e)) + "\n" for e in evs]


def model_consts(tier):
    c = dict(G.BASE)
    c.update({"Key": vlib.tla_set(["k1"]), "Val": vlib.tla_set(["a"]), "MaxVer": 1, "MaxInflight": 1,
              "Enable": vlib.tla_set(["api"]), "Victims": vlib.tla_set(["n2"]),
              "Members": vlib.tla_set(["n1", "n2"] if tier == "quick" else ["n1", "n2", "z"]),
              "HKeys": vlib.tla_set(["k1"]), "WalkLen": 0,
              "HVals": "{0, 1, 2}", "MaxOps": 3, "MaxHostile": 1, "MaxDepth": 3 if tier == "quick" else 4,
              "StrictSetMax": "TRUE"})
    return c


def run(prop, tier, seed, replay=None):
    res = vlib.Result(prop, tier, seed, "model_checking")
    vlib.build_harness()
    if replay:
        with open(replay) as fh:
            obj = json.load(fh)
        if obj.get("kind") == "hostile-bytes":
            # regenerate the byte-level trace on the current tree (the driver is deterministic)
            tpath = tmp("replay_fz.ndjson")
            G.run_harness(["fuzz", json.dumps(obj["dcfg"])], out_path=tpath)
            lines = compress_ints(G.split_traces(tpath)[obj["trace_index"]])
        else:
            tpath = tmp("replay_h.ndjson")
            G.run_harness(["trace", json.dumps(obj["hcfg"])],
                          stdin_text=json.dumps({"steps": obj["steps"]}) + "\n", out_path=tpath)
            lines = G.split_traces(tpath)[0]
        for (_, f, at) in G.observe([lines], G.trace_constants({}), INV, PROPS, "replay_h"):
            res.violation(obj, f"{f} fails at event {at}")
        res.coverage = {"states": 1, "transitions": 1, "traces_validated_against_impl": 1,
                        "samples": [json.loads(lines[1]) if len(lines) > 1 else {}]}
        return res.finish()

    # ---- structure-aware
    c = model_consts(tier)
    cfgp = vlib.write_cfg(tmp(f"hostile_{tier}.cfg"), "HSpec", c, invariants=["C09_NoPanic", "C12_Sets"],
                          properties=["C04_Monotonic"], view="HView", constraint="HBounded",
                          action_constraint="HEmitEdge")
    m = vlib.cached_model_run(f"hostile_{tier}", "MC_Hostile.tla", cfgp, FILES[:5], workers=6,
                              timeout=3400, heap="12g")
    if not m["ok"]:
        raise vlib.ToolError("Hostile model: formula fails on the MODEL (a decodable datagram aborts the "
                             "modelled node): " + "; ".join(m["errors"][:2]))
    hcfg = {"nodes": ["n1", "n2"], "grace": 2, "strip_hb": True}
    stride = 1 if tier == "quick" else 16
    outs, fed = vlib.pipe_edges_to(m["edges_file"], [vlib.harness_bin("gossip"), "replay",
                                                     json.dumps(dict(hcfg, max_report=6))],
                                   procs=8, stride=stride)
    summ = [o for o in outs if o.get("summary")]
    div = [o for o in outs if o.get("diverged") is True]
    nb = sum(s["behaviours"] for s in summ)
    nd = sum(s["diverged"] for s in summ)
    npanic = sum(s["panics"] for s in summ)
    for o in div[:8]:
        lines = ['{"a":"Reset"}\n'] + [json.dumps(G.strip(dict(e, i=i))) + "\n" for i, e in enumerate(o["events"])
                                      if e.get("a") not in ("Nop", "Lose") and not e.get("skipped")]
        for (_, f, at) in G.observe([lines], G.trace_constants({"Grace": 2}), INV, PROPS, f"hos_{prop}"):
            res.violation({"kind": "hostile-ops", "hcfg": {"nodes": ["n1", "n2"], "grace": 2},
                           "steps": o["steps"], "formula": f},
                          f"{f} fails on a real node fed a decodable hostile datagram (event {at})")

    # ---- byte level
    ntr = 120 if tier == "quick" else 900
    fz = {}
    total_recv = decoded = 0
    for si, (nodes, vs) in enumerate([(["n1", "n2", "n3"], 0), (["n1", "n2"], 30000)]):
        dcfg = {"nodes": nodes, "grace": 3, "keys": ["k1", "k2"], "seed": seed * 10 + si,
                "traces": ntr if vs == 0 else max(ntr // 8, 4), "len": 150, "val_size": vs,
                "fd": G.FD_SMALL}
        tpath = tmp(f"fuzz_{prop}_{si}.ndjson")
        G.run_harness(["fuzz", json.dumps(dcfg)], out_path=tpath)
        traces = [compress_ints(t) for t in G.split_traces(tpath)]
        recv = dec = pan = 0
        with open(tpath) as fh:
            for line in fh:
                if '"a":"Recv"' in line:
                    recv += 1
                    dec += '"decoded":true' in line
                    pan += '"panic"' in line
        total_recv += recv
        decoded += dec
        fz[f"set{si}"] = {"nodes": nodes, "val_size": vs, "traces": len(traces), "datagrams": recv,
                          "decoded": dec, "panics": pan}
        consts = G.trace_constants(dict(G.FD_CONST, Grace=3))
        v = G.observe(traces, consts, INV, PROPS, f"fz_{prop}_{si}")
        for (ti, f, at) in v:
            res.violation({"kind": "hostile-bytes", "dcfg": dcfg, "trace_index": ti, "formula": f},
                          f"{f} fails on a real node fed mutated bytes (event {at})")
        if si == 0:
            sample = [json.loads(x) for x in traces[0] if '"a":"Recv"' in x][:2]
        os.remove(tpath)

    res.coverage = {
        "states": m["distinct"], "transitions": m["generated"],
        "traces_validated_against_impl": nb - nd + sum(f["traces"] for f in fz.values()) - len(res.violations),
        "hostile_behaviours_replayed": nb, "replay_stride": stride, "diverged": nd, "panics_in_replay": npanic,
        "byte_level": fz, "byte_level_datagrams": total_recv, "byte_level_decoded": decoded,
        "model_constants": {k: str(v) for k, v in c.items() if k in ("Members", "HVals", "MaxOps", "MaxHostile", "MaxDepth")},
        "samples": vlib.sample_edges(m["edges_file"], 2) + sample,
        "exhaustive": False,
        "checker_cmd": "tlc MC_Hostile | harness gossip replay ; harness gossip fuzz | tlc MC_ObserveGossip",
    }
    res.assumptions = ["the known-member set stays far below one datagram (as the property assumes)",
                       "hostile ids of non-canonical form are projected under distinct names",
                       "zstd itself is trusted"]
    return res.finish()
