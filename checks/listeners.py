"""C15 -- key-change listeners (reference-model property, R3). Listeners.tla enumerates cases
(subscriptions with the fate of their handles x key x kind of key event) as initial states and
states the calls the property demands; every case runs on a real node; differing observations are
judged by ObserveListeners.tla (C15_Dispatch on the observed calls)."""
import json
import os
import re
import subprocess

from lib import vlib

FILES = ["Listeners.tla", "ObserveListeners.tla"]
SCOPES = {
    "quick": [("pairs", 2, 2), ("multi", 1, 1), ("two", 2, 3), ("churn", 2, 4)],
    "thorough": [("pairs", 3, 3), ("multi", 2, 2), ("two", 3, 3), ("churn", 1, 5)],
}


def tmp(n):
    return os.path.join(vlib.WORK, "tmp", n)


def consts(fam, kl, pl):
    # churn: the third number is the length bound of the operation sequence
    return {"Family": json.dumps(fam), "MaxKeyLen": kl, "MaxPrefixLen": 0 if fam == "churn" else pl,
            "MaxOps": pl if fam == "churn" else 0}


def strip_none(v):
    if isinstance(v, dict):
        return {k: strip_none(x) for k, x in v.items() if x is not None}
    if isinstance(v, list):
        return [strip_none(x) for x in v]
    return v


def judge(records, c, label):
    """C15_Dispatch on observed records; returns the records on which it fails (up to 3)."""
    if not records:
        return []
    cfg = vlib.write_cfg(tmp(f"obslis_{label}.cfg"), None, c, invariants=["C15_Dispatch"],
                         init_next=("ObsInit", "ObsNext"))

    def once(recs):
        p = tmp(f"obslis_{label}.ndjson")
        with open(p, "w") as fh:
            for r in recs:
                fh.write(json.dumps({k: r[k] for k in ("subs", "keychars", "kind", "observed", "panic")}) + "\n")
        r, text = vlib.run_tlc("ObserveListeners.tla", cfg, workers=1, timeout=600,
                               env={"TRACE": p, "JAVA_TOOL_OPTIONS": "-Xss1g"})
        os.remove(p)
        if "Parsing or semantic analysis failed" in text:
            raise vlib.ToolError("ObserveListeners failed to parse: " + text[-800:])
        if re.search(r"Invariant C15_Dispatch is violated", text):
            return True
        if "Error:" in text:
            raise vlib.ToolError("ObserveListeners failed: " + text[-800:])
        return False
    if not once(records):
        return []
    # locate one offending record by halving, then a few more among the first records
    cand = records
    while len(cand) > 1:
        half = cand[:len(cand) // 2]
        cand = half if once(half) else cand[len(cand) // 2:]
    out = [cand[0]]
    for rec in records[:6]:
        if rec is not cand[0] and len(out) < 3 and once([rec]):
            out.append(rec)
    return out


def run(prop, tier, seed, replay=None):
    res = vlib.Result(prop, tier, seed, "model_checking")
    vlib.build_harness()
    binp = vlib.harness_bin("listeners")
    if replay:
        with open(replay) as fh:
            obj = json.load(fh)
        p = subprocess.run([binp, "5"], input=json.dumps(obj["case"]) + "\n", text=True, stdout=subprocess.PIPE)
        mism = [strip_none(json.loads(l)) for l in p.stdout.splitlines() if '"mismatch"' in l]
        for rec in judge(mism, consts(*obj["scope"]), "replay"):
            res.violation(obj, "C15_Dispatch fails")
        res.coverage = {"states": 1, "transitions": 1, "traces_validated_against_impl": 1, "samples": [obj["case"]]}
        return res.finish()
    states = transitions = cases = bad = firing = 0
    samples = []
    scopes = {}
    for (fam, kl, pl) in SCOPES[tier]:
        c = consts(fam, kl, pl)
        cfgp = vlib.write_cfg(tmp(f"listeners_{fam}_{kl}_{pl}.cfg"), "Spec", c, invariants=["ExpectedSane"],
                              action_constraint="EmitEdge")
        m = vlib.cached_model_run(f"listeners_{fam}_{kl}_{pl}", "Listeners.tla", cfgp, FILES[:1], workers=6,
                                  timeout=3000, heap="8g")
        if not m["ok"]:
            raise vlib.ToolError("Listeners model fails: " + "; ".join(m["errors"][:2]))
        states += m["distinct"]
        transitions += m["generated"]
        outs, fed = vlib.pipe_edges_to(m["edges_file"], [binp, "10"], procs=6)
        summ = [o for o in outs if o.get("summary")]
        mism = [strip_none(o) for o in outs if o.get("mismatch")]
        n = sum(s["cases"] for s in summ)
        b = sum(s["mismatches"] for s in summ)
        cases += n
        bad += b
        firing += sum(s["firing"] for s in summ)
        scopes[f"{fam}_{kl}_{pl}"] = {"cases": n, "mismatches": b, "panics": sum(s["panics"] for s in summ)}
        if not samples:
            samples = vlib.sample_edges(m["edges_file"], 2)
        for rec in judge(mism, c, f"{fam}"):
            res.violation({"kind": "listener-case", "case": rec["case"], "scope": [fam, kl, pl],
                           "observed": rec["observed"], "panic": rec.get("panic_text")},
                          "C15_Dispatch fails: observed calls differ from the specification"
                          + (" (panic: " + str(rec.get("panic_text"))[:80] + ")" if rec.get("panic") else ""))
    # random sets of up to 8 subscriptions (prefixes up to 3 characters, half of them derived from the key)
    nrand = 1500 if tier == "quick" else 20000
    p = subprocess.run([binp, "random", str(seed), str(nrand)], text=True, stdout=subprocess.PIPE)
    if p.returncode != 0:
        raise vlib.ToolError("listeners random driver failed")
    recs = [strip_none(json.loads(l)) for l in p.stdout.splitlines() if l.strip()]
    for rec in judge(recs, consts("pairs", 3, 3), "random"):
        res.violation({"kind": "listener-case", "case": rec["case"], "scope": ["pairs", 3, 3],
                       "observed": rec["observed"], "panic": rec.get("panic_text")},
                      "C15_Dispatch fails for a random set of subscriptions: " + json.dumps(rec["case"])[:200])
    scopes["random_up_to_8_subscriptions"] = {"cases": len(recs),
                                               "with_calls": sum(1 for r in recs if r["observed"])}
    cases += len(recs)

    res.coverage = {"states": states, "transitions": transitions,
                    "traces_validated_against_impl": cases - bad, "cases": cases, "cases_with_expected_calls": firing,
                    "mismatching": bad, "scopes": scopes, "exhaustive": True, "samples": samples,
                    "alphabet": "a, b, é (2 bytes), 𝄞 (4 bytes); 17 kinds of key event (three of them across a gossip reset of the owner's copy); fates held/dropped/forever",
                    "checker_cmd": "tlc Listeners.tla | harness listeners ; differing cases -> tlc ObserveListeners.tla"}
    res.assumptions = ["replicated writes are delivered as crafted ACKs through the independent codec",
                       "exhaustive within the stated string lengths; 'multi' family: three subscriptions "
                       "(two over prefixes of length <= 1, one of length <= 2), every fate combination"]
    return res.finish()
