"""C10 / C11 -- phi-accrual failure detection (Detector.tla = Gossip.tla + crafted SYN digests for
one observed member, with ghost evidence counters).

model  : TLC, all arrival histories up to the bound for a grid of detector parameters.
replay : every transition on a real Chitchat (heartbeats arrive as crafted SYN digests through the
         independent codec, evaluations through update_nodes_liveness, paused clock).
drive  : long random histories (steady phases, bursts, silences, stale/equal/lower/duplicate
         heartbeats) -> TraceDetector; non-conforming ones -> ObserveDetector with the property's
         formulas."""
import json
import os
import random
import re
import subprocess

from lib import vlib
from checks import gossip as G

FILES = ["NodeStateOps.tla", "FdOps.tla", "Gossip.tla", "Detector.tla", "MC_Detector.tla",
         "TraceDetector.tla", "MC_TraceDetector.tla", "ObserveDetector.tla", "MC_ObserveDetector.tla"]

FORMULAS = {
    "C10": {"inv": ["C10_TwoObservations", "C10_UsableEvidence"], "props": ["C10_Complete"]},
    "C11": {"inv": ["C11_NeedsEvidence"], "props": ["C11_StaleIgnored", "C11_SteadyObs"]},
}
TRACE_INV = ["C10_TwoObservations", "C10_UsableEvidence", "C11_NeedsEvidence", "C12_Sets"]
TRACE_PROPS = ["C10_Complete", "C11_StaleIgnored", "C11_Steady", "C11_SteadyObs", "C12_Partition", "C13_Publish"]


def consts(phi, window, maxi, prior, model, dead_grace=100000):
    c = dict(G.BASE)
    c.update({"Node": vlib.tla_set(["n1", "x"]), "Writers": "{}", "Key": "{}", "Val": "{}",
              "Advances": "{1, 2, 3}" if model else "{}", "MaxVer": 0, "MaxInflight": 0,
              "MaxClock": 9, "MaxHb": 99, "TrackHb": "TRUE", "PhiN": phi[0], "PhiD": phi[1],
              "Window": window, "MaxInterval": maxi, "Prior": prior, "DeadGrace": dead_grace,
              "Enable": "{}", "Heartbeats": "{1, 2, 3, 4}" if model else "{}",
              "MaxArrivals": 5 if model else 0, "KeepPath": "TRUE" if model else "FALSE"})
    return c


def hcfg(phi, window, maxi, prior, dead_grace=100000):
    return {"nodes": ["n1", "x"], "grace": 2,
            "fd": {"phi": phi[0] / phi[1], "window": window, "max_interval": maxi,
                   "initial": prior, "dead_grace": dead_grace}}


GRID_Q = [((1, 1), 2, 2, 1), ((1, 2), 1, 4, 2), ((2, 1), 3, 1, 4)]
GRID_T = [((pn, pd), w, mi, pr) for (pn, pd) in ((1, 2), (1, 1), (2, 1), (8, 1))
          for (w, mi, pr) in ((1, 1, 1), (1, 4, 2), (2, 2, 1), (2, 1, 4), (3, 2, 2), (3, 4, 1), (2, 4, 4), (3, 1, 2), (1, 2, 4))]


def tmp(n):
    return os.path.join(vlib.WORK, "tmp", n)


def family_key(tier, seed):
    import hashlib
    h = hashlib.sha256()
    h.update(vlib.spec_hash(FILES).encode())
    h.update(vlib.repo_hash().encode())
    for dp, dn, fn in sorted(os.walk(os.path.join(vlib.HARNESS, "src"))):
        dn.sort()
        for f in sorted(fn):
            with open(os.path.join(dp, f), "rb") as fh:
                h.update(fh.read())
    for f in (__file__, G.__file__):
        with open(f, "rb") as fh:
            h.update(fh.read())
    h.update(f"{tier}:{seed}".encode())
    return h.hexdigest()[:20]


def family_run(tier, seed):
    """Model runs, edge replays and driver histories shared by C10 and C11 (cached per tree)."""
    cpath = os.path.join(vlib.WORK, "cache", f"detfamily_{family_key(tier, seed)}.json")
    if os.path.exists(cpath):
        with open(cpath) as fh:
            fam = json.load(fh)
        fam["cached"] = True
        fam["divergent"] = [(d[0], (tuple(d[1][0]), d[1][1], d[1][2], d[1][3], d[1][4]), d[2], d[3]) for d in fam["divergent"]]
        return fam
    prop = "fam"
    states = transitions = conform = 0
    models = {}
    divergent = []   # (lines, params, steps, note)
    samples = []
    grid = GRID_Q if tier == "quick" else GRID_T
    for (phi, w, mi, pr) in grid:
        name = f"det_{phi[0]}_{phi[1]}_{w}_{mi}_{pr}"
        c = consts(phi, w, mi, pr, True)
        if tier == "thorough" and w == 1:
            c["MaxArrivals"] = 6
        cfgp = vlib.write_cfg(tmp(f"{name}.cfg"), "DSpec", c, invariants=TRACE_INV,
                              properties=[f for f in TRACE_PROPS if f != "C11_SteadyObs"], view="DView", constraint="DBounded",
                              action_constraint="DEmitEdge")
        m = vlib.cached_model_run(name, "MC_Detector.tla", cfgp, FILES[:5], workers=6, timeout=3000,
                                  heap="8g")
        if not m["ok"]:
            raise vlib.ToolError(f"Detector model {name} fails on the MODEL: " + "; ".join(m["errors"][:2]))
        states += m["distinct"]
        transitions += m["generated"]
        h = hcfg(phi, w, mi, pr)
        outs, fed = vlib.pipe_edges_to(m["edges_file"], [vlib.harness_bin("gossip"), "replay",
                                                         json.dumps(dict(h, max_report=4))], procs=6)
        summ = [o for o in outs if o.get("summary")]
        nb = sum(s["behaviours"] for s in summ)
        nd = sum(s["diverged"] for s in summ)
        conform += nb - nd
        models[name] = {"distinct": m["distinct"], "generated": m["generated"], "replayed": nb, "diverged": nd}
        if not samples:
            samples = vlib.sample_edges(m["edges_file"], 2)
        for o in [o for o in outs if o.get("diverged") is True][:4]:
            lines = ['{"a":"Reset"}\n'] + [json.dumps(G.strip({k: v for k, v in dict(e, i=i).items()
                                                               if k not in ("out", "outlen")})) + "\n"
                                          for i, e in enumerate(o["events"])]
            # may still be a behaviour of the specification (rounding exactly at the threshold)
            c2 = consts(phi, w, mi, pr, False)
            cfg2 = vlib.write_cfg(tmp(f"tdet_rd_{prop}.cfg"), "TraceSpec", c2, invariants=TRACE_INV,
                                  properties=TRACE_PROPS, view="TraceView", post="TraceAccepted")
            p2 = tmp(f"tdet_rd_{prop}.ndjson")
            G.write_traces(p2, [lines])
            ok2, _info = vlib.validate_trace("MC_TraceDetector.tla", cfg2, p2, timeout=600)
            os.remove(p2)
            if ok2:
                models[name]["diverged_but_accepted_by_trace_validation"] = \
                    models[name].get("diverged_but_accepted_by_trace_validation", 0) + 1
            else:
                divergent.append((lines, (phi, w, mi, pr, 100000), o["steps"], f"replay of {name} diverged"))

    # long random histories
    rnd = random.Random(seed)
    nsets = 6 if tier == "quick" else 16
    drv = {}
    for si in range(nsets):
        phi = rnd.choice([(1, 2), (1, 1), (3, 2), (2, 1), (37, 10), (8, 1), (16, 1)])
        if tier == "quick":
            w = rnd.choice([1, 2, 5, 20])
            mi = rnd.choice([1, 3, 10, 30])
            pr = rnd.choice([1, 2, 5, 20])
            narr, ntr = 150, 25
        else:
            w = rnd.choice([1, 2, 5, 20, 100, 1000])
            mi = rnd.choice([1, 3, 10, 100, 1000])
            pr = rnd.choice([1, 2, 5, 50, 500])
            narr = rnd.choice([200, 600, 2000])
            ntr = 8 if narr == 2000 else 20
        # every third set: a short dead-node grace period, so that the member is removed in long silences and
        # stale heartbeats are replayed to a node that only remembers it
        dg = 100000 if si % 3 != 2 else [2, 3, 5][(si // 3) % 3] * max(mi, pr)   # (no draw: the parameter sequence stays as it was)
        h = hcfg(phi, w, mi, pr, dg)
        tpath = tmp(f"detdrv_{prop}_{si}.ndjson")
        G.run_harness(["detector", json.dumps(dict(h, seed=seed * 100 + si, traces=ntr, arrivals=narr))],
                      out_path=tpath)
        c = consts(phi, w, mi, pr, False, dg)
        cfg = vlib.write_cfg(tmp(f"tdet_{prop}_{si}.cfg"), "TraceSpec", c, invariants=TRACE_INV,
                             properties=TRACE_PROPS, view="TraceView", post="TraceAccepted")
        traces = G.split_traces(tpath)
        nev = sum(len(t) for t in traces)
        cur = traces
        path = tpath
        acc = 0
        for rnd_i in range(4):
            ok, info = vlib.validate_trace("MC_TraceDetector.tla", cfg, path, timeout=3000)
            if ok:
                acc = len(cur)
                break
            at = info.get("rejected_at") or max(info.get("distinct", 2) - 1, 1)
            pos = 0
            hit = len(cur) - 1
            for ti, t in enumerate(cur):
                if pos + len(t) >= at:
                    hit = ti
                    break
                pos += len(t)
            divergent.append((cur[hit], (phi, w, mi, pr, dg), G.steps_of_events(cur[hit]),
                              f"history rejected at event {at - pos}: " + " ".join(info.get("errors", []))[:200]))
            cur = cur[:hit] + cur[hit + 1:]
            path = tmp(f"detdrv_{prop}_{si}_r.ndjson")
            G.write_traces(path, cur)
        else:
            for t in cur:
                divergent.append((t, (phi, w, mi, pr, dg), G.steps_of_events(t), "not validated"))
        conform += acc
        drv[f"set{si}"] = {"phi": f"{phi[0]}/{phi[1]}", "window": w, "max_interval": mi, "initial": pr,
                           "dead_grace": dg, "traces": len(traces), "events": nev, "accepted": acc}
        if len(samples) < 3:
            samples.append([json.loads(x) for x in traces[0][1:4]])
        os.remove(tpath)

    fam = {"states": states, "transitions": transitions, "conform": conform, "models": models, "drv": drv,
           "divergent": divergent, "samples": samples, "cached": False}
    with open(cpath + ".part", "w") as fh:
        json.dump(fam, fh)
    os.replace(cpath + ".part", cpath)
    return fam


def run(prop, tier, seed, replay=None):
    res = vlib.Result(prop, tier, seed, "model_checking")
    vlib.build_harness()
    inv, props = FORMULAS[prop]["inv"], FORMULAS[prop]["props"]

    if replay:
        with open(replay) as fh:
            obj = json.load(fh)
        tpath = tmp("replay_det.ndjson")
        G.run_harness(["trace", json.dumps(obj["hcfg"])],
                      stdin_text=json.dumps({"steps": obj["steps"]}) + "\n", out_path=tpath)
        c = consts(tuple(obj["phi"]), obj["window"], obj["maxi"], obj["prior"], False, obj.get("dead_grace", 100000))
        for (_, f, at) in observe(G.split_traces(tpath), c, inv, props, "replay"):
            res.violation(obj, f"{f} fails at event {at}")
        res.coverage = {"states": 1, "transitions": len(obj["steps"]),
                        "traces_validated_against_impl": 1, "samples": [obj["steps"][:5]]}
        return res.finish()

    fam = family_run(tier, seed)
    states, transitions, conform = fam["states"], fam["transitions"], fam["conform"]
    models, drv, divergent, samples = fam["models"], fam["drv"], fam["divergent"], fam["samples"]

    # judge every non-conforming history, grouped by detector parameters (one TLC run per group;
    # a reported violation is then pinned to its history by single-history runs)
    groups = {}
    for d in divergent:
        groups.setdefault(d[1], []).append(d)
    for gi, (params, items) in enumerate(groups.items()):
        phi, w, mi, pr, dg = params
        c = consts(phi, w, mi, pr, False, dg)
        if not observe_batch([it[0] for it in items], c, inv, props, f"{prop}_g{gi}"):
            continue
        found = 0
        for (lines, _p, steps, note) in items:
            v = observe([lines], c, inv, props, f"{prop}_{gi}")
            for (_, f, at) in v:
                res.violation({"kind": "detector-history", "hcfg": hcfg(phi, w, mi, pr, dg), "phi": list(phi),
                               "window": w, "maxi": mi, "prior": pr, "dead_grace": dg, "steps": steps, "formula": f},
                              f"{f} fails on a real arrival history (event {at})")
            found += len(v)
            if found >= 3:
                break

    res.coverage = {
        "states": states, "transitions": transitions, "traces_validated_against_impl": conform,
        "models": models if tier == "quick" else {"count": len(models)}, "drivers": drv,
        "drift": [{"note": d[3], "steps": d[2][:20]} for d in divergent[:4]], "drift_count": len(divergent),
        "formulas": FORMULAS[prop], "samples": samples, "exhaustive": False,
        "checker_cmd": "tlc MC_Detector | harness gossip replay ; harness gossip detector | tlc MC_TraceDetector ; "
                       "non-conforming histories -> tlc MC_ObserveDetector",
    }
    res.assumptions = ["1 tick = 1 s: all durations are whole seconds, for which the f64 sums are exact",
                       "exact equality phi = threshold may round either way when the mean is not exact "
                       "(explicit in FdOps!AliveOutcomes)",
                       "C11_Steady reads the detector window and is therefore judged on conforming traces only"]
    return res.finish()


def observe_batch(lines_list, c, inv, props, label):
    """True iff some formula fails somewhere in the given histories (one TLC run)."""
    cfg = vlib.write_cfg(tmp(f"odetb_{label}.cfg"), "ObsSpec", c, invariants=inv, properties=props,
                         view="ObsView", post="ObsDone")
    p = tmp(f"odetb_{label}.ndjson")
    G.write_traces(p, lines_list)
    env = {"TRACE": p, "JAVA_TOOL_OPTIONS": vlib.TRACE_JAVA_OPTS + " -Xmx4g"}
    r, text = vlib.run_tlc("MC_ObserveDetector.tla", cfg, workers=1, timeout=3000, env=env)
    os.remove(p)
    if "Parsing or semantic analysis failed" in text:
        raise vlib.ToolError("ObserveDetector failed to parse: " + text[-800:])
    if re.search(r"(Invariant|Action property) (\w+) is violated", text):
        return True
    if "Error:" in text:
        raise vlib.ToolError("ObserveDetector failed: " + text[-800:])
    return False


def observe(lines_list, c, inv, props, label):
    cfg = vlib.write_cfg(tmp(f"odet_{label}.cfg"), "ObsSpec", c, invariants=inv, properties=props,
                         view="ObsView", post="ObsDone")
    out = []
    for ti, lines in enumerate(lines_list):
        p = tmp(f"odet_{label}.ndjson")
        G.write_traces(p, [lines])
        env = {"TRACE": p, "JAVA_TOOL_OPTIONS": vlib.TRACE_JAVA_OPTS + " -Xmx4g"}
        r, text = vlib.run_tlc("MC_ObserveDetector.tla", cfg, workers=1, timeout=1200, env=env)
        os.remove(p)
        if "Parsing or semantic analysis failed" in text:
            raise vlib.ToolError("ObserveDetector failed to parse: " + text[-800:])
        m = re.search(r"(Invariant|Action property) (\w+) is violated", text)
        if m:
            out.append((ti, m.group(2), max(r["distinct"] - 1, 1)))
        elif "Error:" in text:
            raise vlib.ToolError("ObserveDetector failed: " + text[-800:])
    return out
