"""C08 -- wire format (reference-layout property, R3). Wire.tla states the documented layout as
arithmetic over message shapes (length classes 0, 1, 255, 256, 16383..16385, 65535; digests of
0/1/2/2000 entries; IPv4/IPv6; op mixes; one, several, raw and compressed blocks); every shape is
realised by the independent codec with three kinds of string content and pushed through the real
decoder and (own framing) the real encoder; what was observed is judged by ObserveWire.tla.
In addition every datagram emitted by real nodes in random cluster runs (incl. ~30 KB values that
span several compressed blocks) is round-tripped through both implementations."""
import json
import os
import re
import subprocess

from lib import vlib
from checks import gossip as G

FILES = ["Wire.tla", "ObserveWire.tla"]


def tmp(n):
    return os.path.join(vlib.WORK, "tmp", n)


def judge(records, tier, label):
    if not records:
        return []
    cfg = vlib.write_cfg(tmp(f"obswire_{label}.cfg"), None, {"Tier": json.dumps(tier)}, invariants=["C08_Wire"],
                         init_next=("ObsInit", "ObsNext"))

    def once(recs):
        p = tmp(f"obswire_{label}.ndjson")
        with open(p, "w") as fh:
            for r in recs:
                fh.write(json.dumps({"shape": r["shape"], "is_raw": r["is_raw"], "obs": r["obs"]}) + "\n")
        r, text = vlib.run_tlc("ObserveWire.tla", cfg, workers=1, timeout=600,
                               env={"TRACE": p, "JAVA_TOOL_OPTIONS": "-Xss1g"})
        os.remove(p)
        if "Parsing or semantic analysis failed" in text:
            raise vlib.ToolError("ObserveWire failed to parse: " + text[-800:])
        if re.search(r"Invariant C08_Wire is violated", text):
            return True
        if "Error:" in text:
            return True   # a missing field in the observation (e.g. decoder error) is a failed conjunct
        return False
    if not once(records):
        return []
    out = []
    for rec in records[:10]:
        if once([rec]):
            out.append(rec)
            if len(out) >= 3:
                break
    return out


def run(prop, tier, seed, replay=None):
    res = vlib.Result(prop, tier, seed, "other")
    vlib.build_harness()
    binp = vlib.harness_bin("wire")
    if replay:
        with open(replay) as fh:
            obj = json.load(fh)
        line = json.dumps({"shape": obj["shape"], "layout": obj.get("layout", {})}) + "\n"
        p = subprocess.run([binp, "shapes", "9"], input=line, text=True, stdout=subprocess.PIPE)
        mism = [json.loads(l) for l in p.stdout.splitlines() if '"mismatch"' in l]
        for rec in judge(mism, obj.get("tier", "quick"), "replay"):
            res.violation(obj, "C08_Wire fails")
        res.coverage = {"explanation": "replay of one message shape", "evaluations": 3, "distinct_nontrivial": 3,
                        "samples": [obj["shape"]]}
        return res.finish()

    cfgp = vlib.write_cfg(tmp(f"wire_{tier}.cfg"), "Spec", {"Tier": json.dumps(tier)}, invariants=["LayoutSane"],
                          action_constraint="EmitEdge")
    m = vlib.cached_model_run(f"wire_{tier}", "Wire.tla", cfgp, FILES[:1], workers=6, timeout=3000, heap="8g")
    if not m["ok"]:
        raise vlib.ToolError("Wire model fails: " + "; ".join(m["errors"][:2]))
    outs, fed = vlib.pipe_edges_to(m["edges_file"], [binp, "shapes", "10"], procs=8)
    summ = [o for o in outs if o.get("summary")]
    mism = [o for o in outs if o.get("mismatch")]
    cases = sum(s["cases"] for s in summ)
    bad = sum(s["mismatches"] for s in summ)
    for rec in judge(mism, tier, tier):
        res.violation({"kind": "wire-shape", "shape": rec["shape"], "content_kind": rec["kind"], "obs": rec["obs"],
                       "tier": tier},
                      "C08_Wire fails for a message shape: " + json.dumps(rec["shape"])[:160])

    # datagrams emitted by real nodes
    emitted = bad_emitted = 0
    biggest = 0
    for si, (vs, ntr) in enumerate([(0, 30), (30000, 15)] if tier == "quick" else [(0, 400), (30000, 150), (50000, 60)]):
        hexp = tmp(f"wire_hex_{si}.txt")
        dcfg = {"nodes": ["n1", "n2", "n3", "n4"], "grace": 3, "fd": G.FD_SMALL, "keys": ["k1", "k2", "k3", "k4"],
                "advances": [1, 2, 3], "seed": seed * 31 + si, "traces": ntr, "len": 100, "val_size": vs,
                "nvals": 4 if vs else 0, "w_live": 8, "w_sync": 10, "hex_out": hexp}
        G.run_harness(["drive", json.dumps(dcfg)], out_path=os.devnull)
        with open(hexp) as fh:
            p = subprocess.run([binp, "emitted", "5"], stdin=fh, text=True, stdout=subprocess.PIPE)
        with open(hexp) as fh:
            for line in fh:
                biggest = max(biggest, len(line) // 2)
        os.remove(hexp)
        for l in p.stdout.splitlines():
            o = json.loads(l)
            if o.get("summary"):
                emitted += o["cases"]
                bad_emitted += o["mismatches"]
            elif o.get("mismatch"):
                res.violation({"kind": "wire-emitted", "why": o["why"], "hex": o["hex"], "len": o["len"]},
                              "a datagram emitted by a real node does not round-trip: " + "; ".join(o["why"])[:160])
    res.coverage = {
        "explanation": "reference-layout agreement: Wire.tla's layout arithmetic vs independent codec vs real "
                       "decoder/encoder on every enumerated shape x 3 string contents; plus round trip of every "
                       "datagram emitted by real nodes in random cluster runs",
        "evaluations": cases + emitted, "distinct_nontrivial": cases - bad + emitted - bad_emitted,
        "states": m["distinct"], "shapes": m["edges"], "shape_cases": cases, "shape_mismatches": bad,
        "emitted_datagrams": emitted, "emitted_mismatches": bad_emitted, "largest_emitted_bytes": biggest,
        "samples": vlib.sample_edges(m["edges_file"], 3), "exhaustive": True,
        "checker_cmd": "tlc Wire.tla | harness wire shapes ; harness gossip drive (hex) | harness wire emitted ; "
                       "differing shapes -> tlc ObserveWire.tla",
    }
    res.assumptions = ["zstd is trusted (compressed block contents are not modelled; their framing is)",
                       "shapes whose single operation exceeds 65 535 bytes are decoded but not re-encoded "
                       "(the real encoder never emits them)",
                       "real messages are compared through their derived Debug view with the framing-dependent "
                       "private length field removed"]
    return res.finish()
