"""C06 -- local key-value semantics (reference-model property, R3).

spec -> code : every edge of LocalKV's state graph up to the length bound is replayed on a real node
               and *all* reads are compared with the specification's.
code -> spec : random op sequences of length 40 on the real node; TLC validates the recorded reads
               against TraceLocalKV (which reuses LocalKV's actions and checks its invariants)."""
import json
import os
import subprocess

from lib import vlib

FILES = ["NodeStateOps.tla", "LocalKV.tla", "MC_LocalKV.tla"]
KEYS = ["", "a", "ab", "b"]
PREFIXES = ["", "a", "ab", "b", "abc"]
HCFG = {"grace": 2, "keys": KEYS, "prefixes": PREFIXES}


def run(prop, tier, seed, replay=None):
    res = vlib.Result(prop, tier, seed, "model_checking")
    vlib.build_harness()
    binp = vlib.harness_bin("localkv")
    if replay:
        with open(replay) as fh:
            obj = json.load(fh)
        if obj.get("kind") == "localkv-trace":
            # re-execute the recorded operations on the current tree and validate the fresh record
            steps = []
            for e in obj["events"]:
                if e.get("a") == "Reset":
                    continue
                st = {"a": e["a"], "n": "n1"}
                if e["a"] in ("Set", "SetTtl", "Delete", "DeleteTtl"):
                    st.update(k=e.get("k", ""), v=e.get("v", ""))
                if e["a"] == "Advance":
                    st = {"a": "Advance", "d": e.get("d", 1)}
                steps.append(st)
            tpath = os.path.join(vlib.WORK, "tmp", f"localkv_replay_{os.getpid()}.ndjson")
            with open(tpath, "w") as fh:
                p = subprocess.run([binp, "exec", json.dumps(HCFG)], input=json.dumps({"steps": steps}) + "\n",
                                   text=True, stdout=fh)
            if p.returncode != 0:
                raise vlib.ToolError("localkv exec failed")
            ok, info = vlib.validate_trace("MC_TraceLocalKV.tla", "MC_TraceLocalKV.cfg", tpath, timeout=600)
            os.remove(tpath)
            if not ok:
                res.violation(obj, "recorded reads are not a behaviour of the reference map")
            res.coverage = {"states": 1, "transitions": len(steps), "traces_validated_against_impl": 1,
                            "samples": [steps[:6]]}
            return res.finish()
        line = json.dumps({"steps": obj["steps"], "expect": obj["expect"]}) + "\n"
        p = subprocess.run([binp, "replay", json.dumps(HCFG)], input=line, text=True,
                           stdout=subprocess.PIPE)
        outs = [json.loads(l) for l in p.stdout.splitlines() if l.strip()]
        for o in outs:
            if o.get("mismatch"):
                res.violation(obj, "reads differ from the reference map")
        res.coverage = {"states": 1, "transitions": 1, "traces_validated_against_impl": 1,
                        "samples": [obj["steps"]]}
        return res.finish()

    cfg = "MC_LocalKV_quick.cfg" if tier == "quick" else "MC_LocalKV_thorough.cfg"
    m = vlib.cached_model_run("localkv_" + tier, "MC_LocalKV.tla", cfg, FILES, workers=6,
                              timeout=3000)
    if not m["ok"]:
        raise vlib.ToolError("LocalKV model run failed: " + "; ".join(m["errors"][:3]))
    outs, fed = vlib.pipe_edges_to(m["edges_file"], [binp, "replay", json.dumps(HCFG)])
    summary = [o for o in outs if o.get("summary")][0]
    mism = [o for o in outs if o.get("mismatch")]
    for o in mism[:5]:
        res.violation({"kind": "localkv-replay", "steps": o["steps"], "expect": o["expect"],
                       "real": o["real"], "events": o.get("events")},
                      "reads differ from the reference map after " +
                      " ".join(s["a"] for s in o["steps"]))

    # code -> spec: two op mixes -- uniform, and one in which most keys are waiting for collection at
    # different instants while collection passes are frequent (every tick matters with a grace of 2)
    ntr = 0
    nev = 0
    accepted = True
    sample_trace = []
    profiles = [("uniform", [3, 2, 1, 1, 2, 1], [1, 2, 3], 60 if tier == "quick" else 1500, 40),
                ("gcheavy", [1, 3, 2, 2, 3, 3], [1], 150 if tier == "quick" else 3000, 50)]
    tdir = os.path.join(vlib.WORK, "tmp")
    for (pname, weights, advs, pn, plen) in profiles:
        tpath = os.path.join(tdir, f"localkv_{tier}_{seed}_{pname}.ndjson")
        dcfg = dict(HCFG, vals=["x", "y"], advances=advs, seed=seed * 31 + len(pname), traces=pn, len=plen,
                    weights=weights)
        with open(tpath, "w") as fh:
            p = subprocess.run([binp, "drive", json.dumps(dcfg)], stdout=fh)
        if p.returncode != 0:
            raise vlib.ToolError("localkv drive failed")
        ntr += pn
        nev += sum(1 for _ in open(tpath))
        ok, info = vlib.validate_trace("MC_TraceLocalKV.tla", "MC_TraceLocalKV.cfg", tpath,
                                       timeout=1800)
        if not sample_trace:
            with open(tpath) as fh:
                for i, line in enumerate(fh):
                    if i < 4:
                        sample_trace.append(json.loads(line))
        if not ok:
            accepted = False
            at = info.get("rejected_at")
            ctx = []
            with open(tpath) as fh:
                lines = fh.readlines()
            if at:
                # cut the offending trace (from its Reset) for the replay file
                start = at - 1
                while start > 0 and '"Reset"' not in lines[start]:
                    start -= 1
                ctx = [json.loads(x) for x in lines[start:at]]
            res.violation({"kind": "localkv-trace", "events": ctx, "tlc": info.get("errors", [])[:3]},
                          f"recorded reads are not a behaviour of the reference map (op mix {pname})")
        os.remove(tpath)

    res.coverage = {
        "states": m["distinct"], "transitions": m["generated"],
        "traces_validated_against_impl": summary["behaviours"] - summary["mismatches"]
        + (ntr if accepted else 0),
        "behaviours_replayed": summary["behaviours"], "replay_steps": summary["steps"],
        "replay_mismatches": summary["mismatches"],
        "driver_traces": ntr, "driver_events": nev, "driver_trace_accepted": accepted,
        "exhaustive": True,
        "constants": {"keys": KEYS, "prefixes": PREFIXES, "vals": ["x", "y"], "grace": 2,
                      "cfg": cfg, "max_len": 4 if tier == "quick" else 5},
        "tlc_model_cached": m.get("cached", False),
        "samples": vlib.sample_edges(m["edges_file"], 2) + [sample_trace],
        "checker_cmd": f"tlc -config spec/{cfg} spec/MC_LocalKV.tla | harness localkv replay; "
                       "harness localkv drive | tlc MC_TraceLocalKV",
    }
    res.assumptions = ["tokio paused clock = model clock (1 tick = 1 s)",
                       "every edge of the state graph up to the length bound is replayed from the "
                       "initial state; equal abstract states are assumed to behave equally"]
    return res.finish()
