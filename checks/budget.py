"""C07 size half. Budget.tla: the writer / serializer / budget arithmetic with a nondeterministic
compressor, model-checked at small scale (every op-size sequence, every compression outcome);
bound to the code by a boundary-directed sweep on a real node whose own digest is close to the
datagram limit, judged by ObserveBudget.tla (every real reply fits 65 507 bytes)."""
import json
import os
import re
import subprocess

from lib import vlib

FILES = ["Budget.tla", "ObserveBudget.tla"]


def tmp(n):
    return os.path.join(vlib.WORK, "tmp", n)


def judge_sweep(res, sweep):
    """Large-state sweep records judged by ObserveBudget!C07_SweepOk."""
    if not sweep:
        return 0
    cfg = vlib.write_cfg(tmp("obsbudget_sweep.cfg"), None, {}, invariants=["C07_SweepOk"],
                         init_next=("ObsInit", "ObsNext"))

    def once(recs):
        path = tmp("budget_sweep.ndjson")
        with open(path, "w") as fh:
            for r in recs:
                fh.write(json.dumps({"mtu": r["mtu"], "len": r["len"], "members": r["members"], "panic": r["panic"]}) + "\n")
        r, text = vlib.run_tlc("ObserveBudget.tla", cfg, workers=1, timeout=900,
                               env={"TRACE": path, "JAVA_TOOL_OPTIONS": "-Xss1g"})
        os.remove(path)
        if "Parsing or semantic analysis failed" in text:
            raise vlib.ToolError("ObserveBudget failed to parse: " + text[-600:])
        if re.search(r"Invariant C07_SweepOk is violated", text):
            return True
        if "Error:" in text:
            raise vlib.ToolError("ObserveBudget (sweep) failed: " + text[-600:])
        return False
    if not once(sweep):
        return 0
    # locate up to 3 offending records by halving
    bad = []
    cand = sweep
    while len(cand) > 1:
        half = cand[:len(cand) // 2]
        cand = half if once(half) else cand[len(cand) // 2:]
    bad.append(cand[0])
    for x in bad:
        res.violation({"kind": "budget-large-state", "row": {k: x[k] for k in ("world", "q", "nmembers", "mtu", "len")},
                       "members": [{k: m[k] for k in ("x", "from", "dmax", "carried", "setmax")} for m in x["members"]]},
                      f"C07_SweepOk fails: delta of {x['len']} bytes under budget {x['mtu']} for a node with "
                      f"{x['nmembers']} members")
    return len(bad)


def budget_stage(res, tier, seed=1):
    consts = {"T": 6, "Limit": 30 if tier == "quick" else 40, "Header": 4, "Reserved": 4,
              "Sizes": "{1, 2, 3, 5, 9}" if tier == "quick" else "{1, 2, 3, 5, 9, 14}",
              "Digests": "{0, 2, 7}", "MaxOps": 4 if tier == "quick" else 5, "FullGain": 3}
    cfgp = vlib.write_cfg(tmp(f"budget_{tier}.cfg"), "Spec", consts,
                          invariants=["C07_DatagramFits", "C07_WriterBound", "C07_WithinBudget"])
    m = vlib.cached_model_run(f"budget_{tier}", "Budget.tla", cfgp, FILES[:1], workers=4, timeout=1200,
                              export=False)
    if not m["ok"]:
        raise vlib.ToolError("Budget model: formula fails on the MODEL: " + "; ".join(m["errors"][:2]))
    p = subprocess.run([vlib.harness_bin("budget"), tier, str(seed)], text=True, stdout=subprocess.PIPE,
                       stderr=subprocess.DEVNULL)
    if p.returncode != 0:
        raise vlib.ToolError("budget sweep failed")
    allrows = [json.loads(l) for l in p.stdout.splitlines() if l.strip()]
    rows = [r for r in allrows if r["kind"] != "Sweep"]
    sweep = [r for r in allrows if r["kind"] == "Sweep"]
    sweep_bad = judge_sweep(res, sweep)
    path = tmp(f"budget_{tier}.ndjson")
    with open(path, "w") as fh:
        for r in rows:
            fh.write(json.dumps({"d": r["d"], "total": r["total"], "delta": r["delta"],
                                 "carried": r["carried"], "sender": r["sender"]}) + "\n")
    cfg = vlib.write_cfg(tmp("obsbudget.cfg"), None, {}, invariants=["C07_ObservedFits", "C07_ObservedTail"],
                         init_next=("ObsInit", "ObsNext"))
    # write_cfg emits an empty CONSTANTS section header; TLC accepts it
    r, text = vlib.run_tlc("ObserveBudget.tla", cfg, workers=1, timeout=600,
                           env={"TRACE": path, "JAVA_TOOL_OPTIONS": "-Xss1g"})
    if "Parsing or semantic analysis failed" in text:
        raise vlib.ToolError("ObserveBudget failed to parse: " + text[-600:])
    bad = []
    if re.search(r"Invariant C07_ObservedFits is violated", text):
        bad = [x for x in rows if x["total"] > 65507 or x["delta"] > 65507 - 4 - x["d"]]
        for x in bad[:3]:
            res.violation({"kind": "budget-sweep", "row": x},
                          f"C07_ObservedFits fails: a real SYN-ACK is {x['total']} bytes "
                          f"(own digest {x['d']} bytes, stream {x['delta']} bytes)")
    elif re.search(r"Invariant C07_ObservedTail is violated", text):
        bad = [x for x in rows if x["carried"] != x["sender"][:len(x["carried"])]]
        for x in bad[:3]:
            res.violation({"kind": "budget-sweep", "row": x},
                          f"C07_ObservedTail fails: the reply carries versions {x['carried']} of a member whose "
                          f"stale entries are {x['sender']} (an entry of {x['vlen']} bytes did not fit)")
    elif "Error:" in text:
        raise vlib.ToolError("ObserveBudget failed: " + text[-600:])
    os.remove(path)
    return {"budget_model_states": m["distinct"], "budget_model_constants": {k: str(v) for k, v in consts.items()},
            "budget_sweep_replies": len(rows), "budget_sweep_over_limit": len(bad),
            "budget_sweep_longest": max([x["total"] for x in rows] + [0]),
            "budget_sweep_included_at_boundary": sum(1 for x in rows if x["included"]),
            "large_state_queries": len(sweep), "large_state_cut_members":
                sum(1 for r in sweep for m in r["members"] if len(m["carried"]) < len([v for v in m["sender"] if v > m["from"]])),
            "large_state_setmax_only_members": sum(1 for r in sweep for m in r["members"] if m["setmax"] != -1),
            "large_state_longest_delta": max([r["len"] for r in sweep] + [0]), "large_state_bad": sweep_bad,
            "budget_sample": rows[:2]}
