"""C17 -- peer selection of a gossip round (reference-model property, R3).

spec -> code : PeerSelection.tla enumerates every input (peers, live, dead, seeds) over the address
               universe up to renaming of addresses (canonical inputs, see the module comment), and
               states the set of allowed outputs as the predicate Allowed; TLC checks on the model
               that the property clauses follow from Allowed and exports every input.
binding      : harness `peersel` calls the real select_nodes_for_gossip on every input, under
               several concrete socket-address assignments and a battery of random generators
               (all-zero, all-ones, mid, counters, every call-by-call script over a small value
               set, seeded StdRng streams), and reports every distinct (input, output) pair.
judge        : the harness does not judge.  TLC evaluates the specification's formulas on the
               observed pairs (ObservePeerSelection.tla): an output outside Allowed, or one that
               breaks a clause of the property, is the violation."""
import json
import os
import re
import subprocess

from lib import vlib

FILES = ["PeerSelection.tla", "MC_PeerSelection.tla"]
OBS_FILES = FILES + ["ObservePeerSelection.tla", "MC_ObservePeerSelection.tla"]
MODEL_INVARIANTS = ["InputOK", "C17_Bounds", "C17_SeedAlways", "C17_DeadAlways", "C17_Allowed",
                    "SomeOutput"]
# order matters: TLC reports the first violated one, so a broken clause of the property text is
# named before the catch-all "not an allowed output"
OBS_INVARIANTS = ["ObsInputOK", "C17_Bounds", "C17_SeedAlways", "C17_DeadAlways", "C17_Allowed"]
SCOPES = {
    # addrs: size of the address universe; the rest configures the harness battery
    "quick": {"addrs": 6, "harness": {"maps": 3, "script_vals": 3, "script_len": 7, "std_seeds": 16}},
    "thorough": {"addrs": 6, "harness": {"maps": 6, "script_vals": 5, "script_len": 7, "std_seeds": 64}},
    "replay": {"addrs": 6, "harness": {"maps": 6, "script_vals": 3, "script_len": 7, "std_seeds": 256}},
}
INPUT_KEYS = ("peers", "live", "dead", "seeds")
OBS_KEYS = INPUT_KEYS + ("nodes", "dead_out", "seed_out")
MAX_VIOLATIONS = 3


def tmp(n):
    return os.path.join(vlib.WORK, "tmp", n)


def consts(addrs):
    return {"AddrSeq": ("<-", f"MC_Addrs{addrs}"), "GossipCount": 3}


def model(tier):
    sc = SCOPES[tier]
    cfgp = vlib.write_cfg(tmp(f"peersel_{tier}.cfg"), "Spec", consts(sc["addrs"]),
                          invariants=MODEL_INVARIANTS, action_constraint="EmitEdge")
    m = vlib.cached_model_run(f"peersel_{sc['addrs']}", "MC_PeerSelection.tla", cfgp, FILES,
                              workers=6, timeout=1500)
    if not m["ok"]:
        raise vlib.ToolError("PeerSelection model: formula fails on the MODEL: "
                             + "; ".join(m["errors"][:2]))
    return m


def judge(records, addrs, label):
    """Evaluates the specification's formulas on observed (input, output) records with TLC.
    Returns a list of (record, formula) for up to MAX_VIOLATIONS offending records."""
    if not records:
        return []
    cfg = vlib.write_cfg(tmp(f"obspeersel_{label}.cfg"), None, consts(addrs),
                         invariants=OBS_INVARIANTS, init_next=("ObsInit", "ObsNext"))
    live = list(records)
    bad = []
    while live and len(bad) < MAX_VIOLATIONS:
        p = tmp(f"obspeersel_{label}_{os.getpid()}.ndjson")
        with open(p, "w") as fh:
            for r in live:
                fh.write(json.dumps({k: r[k] for k in OBS_KEYS}) + "\n")
        try:
            r, text = vlib.run_tlc("MC_ObservePeerSelection.tla", cfg, workers=1, timeout=900,
                                   env={"TRACE": p, "JAVA_TOOL_OPTIONS": "-Xss1g"}, heap="6g")
        finally:
            if os.path.exists(p):
                os.remove(p)
        if "Parsing or semantic analysis failed" in text:
            raise vlib.ToolError("ObservePeerSelection failed to parse: " + text[-800:])
        m = re.search(r"Invariant (\w+) is violated", text)
        if not m:
            if r["errors"] or not r["ok"]:
                raise vlib.ToolError("ObservePeerSelection did not complete: " + text[-1200:])
            if r["distinct"] < 1:
                raise vlib.ToolError("ObservePeerSelection read no record: " + text[-800:])
            break
        mi = re.search(r"/\\ idx = (\d+)", text)
        if not mi:
            raise vlib.ToolError("ObservePeerSelection: violation without a record index: "
                                 + text[-1200:])
        i = int(mi.group(1)) - 1
        bad.append((live[i], m.group(1)))
        # look for a different offending input next (one replay file per input is enough)
        key = [live[i][k] for k in INPUT_KEYS]
        live = [x for x in live if [x[k] for k in INPUT_KEYS] != key]
    return bad


def run_harness_on(lines, hcfg):
    p = subprocess.run([vlib.harness_bin("peersel"), json.dumps(hcfg)], input="".join(lines),
                       text=True, stdout=subprocess.PIPE)
    if p.returncode != 0:
        raise vlib.ToolError(f"harness peersel exited {p.returncode}")
    return [json.loads(l) for l in p.stdout.splitlines() if l.strip()]


def split(outs):
    summ = [o for o in outs if o.get("summary")]
    obs = [o for o in outs if o.get("obs")]
    junk = [o for o in outs if not o.get("summary") and not o.get("obs")]
    if not summ or junk:
        raise vlib.ToolError("harness peersel: unexpected output " + json.dumps((junk or outs)[:1])[:300])
    return summ, obs


def replay_obj(rec, formula, tier):
    o = {"kind": "peersel-case", "formula": formula, "tier": tier}
    for k in OBS_KEYS + ("rng", "map"):
        o[k] = rec.get(k)
    if rec.get("panic"):
        o["panic"] = rec["panic"]
    return o


def describe(rec, formula):
    what = "the code panicked" if rec.get("panic") else \
        f"returned nodes={rec['nodes']} dead={rec['dead_out']} seed={rec['seed_out']}"
    return (f"{formula} fails: peers={rec['peers']} live={rec['live']} dead={rec['dead']} "
            f"seeds={rec['seeds']} rng={rec.get('rng')}: {what}")


def run(prop, tier, seed, replay=None):
    res = vlib.Result(prop, tier, seed, "model_checking")
    vlib.build_harness()
    if replay:
        with open(replay) as fh:
            obj = json.load(fh)
        sc = SCOPES["replay"]
        line = json.dumps({k: obj[k] for k in INPUT_KEYS}) + "\n"
        summ, obs = split(run_harness_on([line], dict(sc["harness"], seed=seed)))
        v = judge(obs, sc["addrs"], "replay")
        for rec, formula in v:
            res.violation(obj, describe(rec, formula))
        res.coverage = {"states": 1, "transitions": 1,
                        "traces_validated_against_impl": 0 if v else 1,
                        "calls": summ[0]["calls"], "observed_pairs": len(obs),
                        "samples": [{k: obj[k] for k in INPUT_KEYS}] + obs[:2]}
        return res.finish()

    sc = SCOPES[tier]
    m = model(tier)
    hcfg = dict(sc["harness"], seed=seed)
    outs, fed = vlib.pipe_edges_to(m["edges_file"], [vlib.harness_bin("peersel"), json.dumps(hcfg)],
                                   procs=6)
    summ, obs = split(outs)
    cases = sum(s["cases"] for s in summ)
    calls = sum(s["calls"] for s in summ)
    if cases != fed or cases != m["edges"]:
        raise vlib.ToolError(f"harness handled {cases} of {fed} exported inputs ({m['edges']} exported)")
    if sum(s["printed"] for s in summ) != sum(s["observed"] for s in summ):
        raise vlib.ToolError("harness truncated its observation list")
    v = judge(obs, sc["addrs"], f"{tier}")
    for rec, formula in v:
        res.violation(replay_obj(rec, formula, tier), describe(rec, formula))

    by_rng = {}
    for s in summ:
        for k, n in s["calls_by_rng"].items():
            by_rng[k] = by_rng.get(k, 0) + n
    # reachable "out" states of the model = all (input, allowed output) pairs
    allowed_pairs = m["distinct"] - 2 * m["edges"]
    inputs_bad = len({json.dumps([r[k] for k in INPUT_KEYS]) for r, _ in v})
    res.coverage = {
        "states": m["distinct"], "transitions": m["generated"],
        "traces_validated_against_impl": cases - inputs_bad,
        "exhaustive": True,
        "inputs": cases, "calls": calls, "calls_by_rng": by_rng,
        "observed_pairs": len(obs), "allowed_pairs_in_model": allowed_pairs,
        "observed_pairs_rejected_by_spec": len(v), "rejections_capped_at": MAX_VIOLATIONS,
        "panics": sum(s["panics"] for s in summ),
        "address_universe": sc["addrs"], "address_assignments_per_input": sc["harness"]["maps"],
        "script_values": summ[0]["script_values"], "scripts_per_assignment": summ[0]["scripts_per_map"],
        "tlc_model_cached": m.get("cached", False),
        "samples": vlib.sample_edges(m["edges_file"], 2) + [
            {k: o[k] for k in OBS_KEYS + ("rng", "map")} for o in obs[:1] + obs[len(obs) // 2:len(obs) // 2 + 2]],
        "checker_cmd": "tlc MC_PeerSelection.tla (every canonical input an initial state; invariants "
                       "C17_* on all allowed outputs) | harness peersel ; observed (input, output) "
                       "pairs -> tlc MC_ObservePeerSelection.tla (C17_Bounds, C17_SeedAlways, "
                       "C17_DeadAlways, C17_Allowed as invariants)",
    }
    res.assumptions = [
        "inputs are enumerated up to renaming of addresses (multisets of the 8 membership types); the "
        "code and the predicate see addresses only through set membership, hash order is varied by "
        f"{sc['harness']['maps']} concrete socket-address assignments per input and std's per-set random hasher",
        "random generators: constant 0 / MAX / 2^63 / 1, counters, every script of "
        f"{sc['harness']['script_len']} successive outputs over {sc['harness']['script_vals']} values "
        "spread over the u64 range (the function makes at most 7 draws on <= 6 addresses), and "
        f"{sc['harness']['std_seeds']} seeded StdRng streams per input and assignment; not all 2^64 outputs",
        "Allowed is the reference (R3): besides the clauses of the property text it requires exactly "
        "min(3,|pool|) targets and no seed contact when a target is a seed and |live| >= |seeds|",
        "live and dead are disjoint subsets of peers (what gossip_multiple passes)",
    ]
    return res.finish()
