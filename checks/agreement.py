"""C14 (and the static pair scope of C04, C20): Agreement.tla enumerates every well-formed
(sender copy, receiver copy, truncation point); each case is realised on two real nodes.
Reference-model property (R3): a real outcome that differs from the prediction is judged by the
same formulas evaluated on the observed values (ObserveAgreement.tla)."""
import json
import os
import re
import subprocess

from lib import vlib

FILES = ["NodeStateOps.tla", "Agreement.tla", "ObserveAgreement.tla"]
FORMULAS = {
    "C14": ["C14_Agreement"],
    "C04": ["C04_Pairs", "C04_PairsNoPanic"],
    "C20": ["C20_PairsObs"],
    "C07": ["C07_Range"],
}
SCOPES = {
    "quick": [{"V": 3, "KeysS": ["k1", "k2", "k3"], "KeysR": ["k1"]}],
    # the property's range 0..7 is reached with two sender keys and key-less receivers
    "thorough": [{"V": 5, "KeysS": ["k1", "k2", "k3"], "KeysR": ["k1"]},
                 {"V": 7, "KeysS": ["k1", "k2"], "KeysR": []}],
}


def tmp(n):
    return os.path.join(vlib.WORK, "tmp", n)


def model(tier, si=0):
    sc = SCOPES[tier][si]
    consts = {"V": sc["V"], "KeysS": vlib.tla_set(sc["KeysS"]), "KeysR": vlib.tla_set(sc["KeysR"])}
    cfgp = vlib.write_cfg(tmp(f"agreement_{tier}_{si}.cfg"), "Spec", consts,
                          invariants=["C14_Agreement", "C04_Pairs", "C20_Pairs", "C07_Range"],
                          action_constraint="EmitEdge")
    m = vlib.cached_model_run(f"agreement_{tier}_{si}", "Agreement.tla", cfgp, FILES[:2], workers=6,
                              timeout=3400, heap="12g")
    if not m["ok"]:
        raise vlib.ToolError("Agreement model: formula fails on the MODEL: " + "; ".join(m["errors"][:2]))
    return m, consts


def judge(records, consts, formulas, label):
    """Evaluates the formulas on observed cases with TLC. Returns list of (record, formula)."""
    if not records:
        return []
    cfg = vlib.write_cfg(tmp(f"obsag_{label}.cfg"), None, consts, invariants=formulas,
                         init_next=("ObsInit", "ObsNext"))

    def once(recs):
        p = tmp(f"obsag_{label}.ndjson")
        with open(p, "w") as fh:
            for r in recs:
                fh.write(json.dumps(r) + "\n")
        r, text = vlib.run_tlc("ObserveAgreement.tla", cfg, workers=1, timeout=600,
                               env={"TRACE": p, "JAVA_TOOL_OPTIONS": "-Xss1g"})
        os.remove(p)
        if "Parsing or semantic analysis failed" in text:
            raise vlib.ToolError("ObserveAgreement failed to parse: " + text[-800:])
        m = re.search(r"Invariant (\w+) is violated", text)
        if m:
            return m.group(1)
        if "Error:" in text:
            return "evaluation-error"
        return None
    if once(records) is None:
        return []
    out = []
    for rec in records[:12]:
        f = once([rec])
        if f:
            out.append((rec, f))
            if len(out) >= 3:
                break
    return out


def strip_none(v):
    if isinstance(v, dict):
        return {k: strip_none(x) for k, x in v.items() if x is not None}
    if isinstance(v, list):
        return [strip_none(x) for x in v]
    return v


def pairs_stage(res, prop, tier):
    """Runs the pair enumeration for `prop` over every scope of the tier; adds violations to res;
    returns a coverage dict."""
    tot = {"pair_states": 0, "pair_transitions": 0, "pairs_replayed": 0, "pairs_nontrivial": 0,
           "pairs_mismatching": 0, "pairs_install_fail": 0, "pair_scopes": SCOPES[tier], "pair_sample": []}
    for si in range(len(SCOPES[tier])):
        m, consts = model(tier, si)
        outs, fed = vlib.pipe_edges_to(m["edges_file"], [vlib.harness_bin("agreement"), "12"], procs=6)
        summ = [o for o in outs if o.get("summary")]
        mism = [strip_none(o) for o in outs if o.get("mismatch")]
        v = judge(mism, consts, FORMULAS[prop], f"{prop}_{tier}_{si}")
        for rec, formula in v:
            res.violation({"kind": "agreement-case", "s": rec["s"], "r": rec["r"], "b": rec["b"],
                           "expect": rec["expect"], "observed": rec["observed"], "formula": formula,
                           "tier": tier, "scope": si},
                          f"{formula} fails on a real sender/receiver pair")
        tot["pair_states"] += m["distinct"]
        tot["pair_transitions"] += m["generated"]
        tot["pairs_replayed"] += sum(s["cases"] for s in summ)
        tot["pairs_nontrivial"] += sum(s["nontrivial"] for s in summ)
        tot["pairs_mismatching"] += sum(s["mismatches"] for s in summ)
        tot["pairs_install_fail"] += sum(s["install_fail"] for s in summ)
        if not tot["pair_sample"]:
            tot["pair_sample"] = vlib.sample_edges(m["edges_file"], 1)
    return tot


def lemma():
    """Unbounded arithmetic core of C14 by TLAPS (spec-only, cached; not load-bearing)."""
    import hashlib
    import shutil
    src = os.path.join(vlib.SPEC, "AgreementLemma.tla")
    with open(src, "rb") as fh:
        key = hashlib.sha256(fh.read()).hexdigest()[:16]
    cpath = os.path.join(vlib.WORK, "cache", f"tlaps_{key}.json")
    if os.path.exists(cpath):
        with open(cpath) as fh:
            return json.load(fh)
    d = tmp("tlaps_" + key)
    os.makedirs(d, exist_ok=True)
    shutil.copy(src, d)
    try:
        p = subprocess.run(["timeout", "240", "tlapm", "--threads", "4", "AgreementLemma.tla"], cwd=d,
                           stdout=subprocess.PIPE, stderr=subprocess.STDOUT, text=True)
        m = re.search(r"All (\d+) obligations? proved", p.stdout)
        out = {"tool": "tlapm", "proved_all": bool(m), "obligations": int(m.group(1)) if m else 0,
               "theorems": ["Agree", "Progress"]}
    except Exception as e:  # tool trouble is not a verdict
        out = {"tool": "tlapm", "proved_all": False, "error": str(e)[:200]}
    shutil.rmtree(d, ignore_errors=True)
    if out.get("proved_all"):
        with open(cpath, "w") as fh:
            json.dump(out, fh)
    return out


def run(prop, tier, seed, replay=None):
    res = vlib.Result(prop, tier, seed, "model_checking")
    vlib.build_harness()
    if replay:
        with open(replay) as fh:
            obj = json.load(fh)
        line = json.dumps({"s": obj["s"], "r": obj["r"], "b": obj["b"], "expect": obj["expect"]}) + "\n"
        p = subprocess.run([vlib.harness_bin("agreement"), "5"], input=line, text=True,
                           stdout=subprocess.PIPE)
        outs = [strip_none(json.loads(l)) for l in p.stdout.splitlines() if l.strip()]
        mism = [o for o in outs if o.get("mismatch")]
        sc = SCOPES[obj.get("tier", "quick")][obj.get("scope", 0)]
        consts = {"V": sc["V"], "KeysS": vlib.tla_set(sc["KeysS"]), "KeysR": vlib.tla_set(sc["KeysR"])}
        for rec, formula in judge(mism, consts, FORMULAS[prop], "replay"):
            res.violation(obj, f"{formula} fails")
        res.coverage = {"states": 1, "transitions": 1, "traces_validated_against_impl": 1,
                        "samples": [obj["s"], obj["r"]]}
        return res.finish()
    cov = pairs_stage(res, prop, tier)
    res.coverage = {
        "states": cov["pair_states"], "transitions": cov["pair_transitions"],
        "traces_validated_against_impl": cov["pairs_replayed"] - cov["pairs_mismatching"],
        "exhaustive": True, "samples": cov["pair_sample"],
        "checker_cmd": "tlc Agreement.tla (all pairs as initial states) | harness agreement ; "
                       "mismatching cases -> tlc ObserveAgreement.tla",
    }
    res.coverage.update(cov)
    if prop == "C14":
        res.coverage["unbounded_lemma_tlaps"] = lemma()
    res.assumptions = ["copies are installed on real nodes with at most two crafted ACKs through the "
                       "independent codec; installation is verified through the public API",
                       "the byte budget for truncation point b is derived from the real full delta's op sizes",
                       "exhaustive within the stated scope (versions/watermarks 0..V, keys as listed)"]
    return res.finish()
