"""C19 -- the gossip server loop. Server.tla enumerates every script of up to MaxLen events over
{tick, valid datagrams, command, send failure, fatal receive error, panic inside the task, shutdown,
and each of these while the user holds the state mutex}; every script runs against the real
spawn_chitchat loop on a scripted Transport/Socket under the paused clock; observed effects are
compared with the prediction and, when they differ, judged by ObserveServer.tla (C19_Observed).
A second driver uses the real UdpTransport on loopback with garbage datagrams up to 65 507 bytes."""
import json
import os
import re
import subprocess

from lib import vlib

FILES = ["Server.tla", "ObserveServer.tla"]


def tmp(n):
    return os.path.join(vlib.WORK, "tmp", n)


def judge(records, label):
    if not records:
        return []
    cfg = vlib.write_cfg(tmp(f"obssrv_{label}.cfg"), None, {"MaxLen": 99}, invariants=["C19_Observed"],
                         init_next=("ObsInit", "ObsNext"))

    def once(recs):
        p = tmp(f"obssrv_{label}.ndjson")
        with open(p, "w") as fh:
            for r in recs:
                fh.write(json.dumps({"observed": r["observed"]}) + "\n")
        r, text = vlib.run_tlc("ObserveServer.tla", cfg, workers=1, timeout=600,
                               env={"TRACE": p, "JAVA_TOOL_OPTIONS": "-Xss1g"})
        os.remove(p)
        if "Parsing or semantic analysis failed" in text:
            raise vlib.ToolError("ObserveServer failed to parse: " + text[-800:])
        if re.search(r"Invariant C19_Observed is violated", text):
            return True
        if "Error:" in text:
            return True
        return False
    if not once(records):
        return []
    out = []
    for rec in records[:10]:
        if once([rec]):
            out.append(rec)
            if len(out) >= 3:
                break
    return out


def run(prop, tier, seed, replay=None):
    res = vlib.Result(prop, tier, seed, "model_checking")
    vlib.build_harness()
    binp = vlib.harness_bin("server")
    if replay:
        with open(replay) as fh:
            obj = json.load(fh)
        if obj.get("kind") == "server-udp":
            udp = run_udp(binp, obj.get("seed", seed), 1)
            for u in udp["bad"]:
                res.violation(obj, u)
        else:
            p = subprocess.run([binp, "scripts", "5"], input=json.dumps({"steps": obj["steps"]}) + "\n", text=True,
                               stdout=subprocess.PIPE)
            mism = [json.loads(l) for l in p.stdout.splitlines() if '"mismatch"' in l]
            for rec in judge(mism, "replay"):
                res.violation(obj, "C19_Observed fails")
        res.coverage = {"states": 1, "transitions": 1, "traces_validated_against_impl": 1,
                        "samples": [obj.get("steps", [])]}
        return res.finish()
    maxlen = 4 if tier == "quick" else 5
    cfgp = vlib.write_cfg(tmp(f"server_{tier}.cfg"), "Spec", {"MaxLen": maxlen}, invariants=["C19_Reported"],
                          properties=["C19_SendErrorsHarmless", "C19_KeepsWorking", "C19_DeadIsDead", "C19_QueueInOrder"],
                          constraint="Bound", action_constraint="EmitEdge")
    m = vlib.cached_model_run(f"server_{tier}", "Server.tla", cfgp, FILES[:1], workers=6, timeout=3000, heap="8g")
    if not m["ok"]:
        raise vlib.ToolError("Server model fails: " + "; ".join(m["errors"][:2]))
    outs, fed = vlib.pipe_edges_to(m["edges_file"], [binp, "scripts", "10"], procs=6)
    summ = [o for o in outs if o.get("summary")]
    mism = [o for o in outs if o.get("mismatch")]
    n = sum(s["scripts"] for s in summ)
    bad = sum(s["mismatches"] for s in summ)
    for rec in judge(mism, tier):
        res.violation({"kind": "server-script", "steps": rec["steps"], "observed": rec["observed"]},
                      "C19_Observed fails on the real loop for script " + " ".join(
                          ("Hold(" + s["e"] + ")") if s.get("hold") else s["e"] for s in rec["steps"]))
    udp = run_udp(binp, seed, 2 if tier == "quick" else 10)
    for u in udp["bad"]:
        res.violation({"kind": "server-udp", "seed": seed, "what": u}, u)
    res.coverage = {"states": m["distinct"], "transitions": m["generated"],
                    "traces_validated_against_impl": n - bad + udp["rounds_ok"],
                    "scripts": n, "script_mismatches": bad, "max_script_len": maxlen, "udp": udp["stats"],
                    "exhaustive": True, "samples": vlib.sample_edges(m["edges_file"], 2),
                    "checker_cmd": "tlc Server.tla | harness server scripts ; harness server udp ; "
                                   "differing scripts -> tlc ObserveServer.tla"}
    res.assumptions = ["the scheduling inside tokio is whatever the single-threaded runtime does; effects are observed "
                       "after the loop has run until it blocks (40 yields)",
                       "the node never learns a peer and has one seed, so each round sends exactly one SYN",
                       "the loopback UDP part runs in real time with generous timeouts (a timeout is a tool error)"]
    return res.finish()


def run_udp(binp, seed, rounds):
    p = subprocess.run([binp, "udp", str(seed), str(rounds)], text=True, stdout=subprocess.PIPE, timeout=900)
    if p.returncode != 0:
        raise vlib.ToolError("server udp driver failed: " + p.stdout[-500:])
    o = json.loads(p.stdout.strip().splitlines()[-1])
    if o.get("tool_trouble"):
        raise vlib.ToolError("loopback UDP driver: " + o["tool_trouble"])
    # the verdict is TLC's: ObserveServerUdp!C19_UdpObserved on the run's record
    rec = {"rounds": o["rounds"], "rounds_ok": o["rounds_ok"], "heartbeat_progress": o["heartbeat_progress"],
           "oversized_phase_ok": o.get("oversized_phase_ok", False), "shutdown_ok": o["shutdown_ok"],
           "loop_ended": any("terminated" in v for v in o.get("violations", []))}
    path = tmp("udp_rec.ndjson")
    with open(path, "w") as fh:
        fh.write(json.dumps(rec) + "\n")
    cfg = vlib.write_cfg(tmp("obsudp.cfg"), None, {}, invariants=["C19_UdpObserved"], init_next=("ObsInit", "ObsNext"))
    r, text = vlib.run_tlc("ObserveServerUdp.tla", cfg, workers=1, timeout=300, env={"TRACE": path, "JAVA_TOOL_OPTIONS": "-Xss1g"})
    os.remove(path)
    if "Parsing or semantic analysis failed" in text:
        raise vlib.ToolError("ObserveServerUdp failed to parse: " + text[-500:])
    bad = []
    if re.search(r"Invariant C19_UdpObserved is violated", text):
        bad = o.get("violations") or ["C19_UdpObserved fails: " + json.dumps(rec)]
    elif "Error:" in text:
        raise vlib.ToolError("ObserveServerUdp failed: " + text[-500:])
    return {"bad": bad, "rounds_ok": o.get("rounds_ok", 0), "stats": o}
