pub mod codec;
pub mod exec;
pub mod world;

use serde_json::Value;
use std::io::BufRead;

/// Reads behaviour lines: either plain JSON objects or TLC `PrintT` output lines of the form
/// `"EDGE {...escaped json...}"` (a TLA+ string literal, which is a valid JSON string).
pub fn read_behaviours<R: BufRead>(r: R, mut f: impl FnMut(Value)) {
    for line in r.lines() {
        let line = match line {
            Ok(l) => l,
            Err(_) => break,
        };
        let t = line.trim();
        if t.starts_with("\"EDGE ") {
            if let Ok(Value::String(s)) = serde_json::from_str::<Value>(t) {
                if let Ok(v) = serde_json::from_str::<Value>(&s[5..]) {
                    f(v);
                }
            }
        } else if t.starts_with('{') {
            if let Ok(v) = serde_json::from_str::<Value>(t) {
                f(v);
            }
        }
    }
}
