//! Real chitchat nodes driven step by step on tokio's paused clock, with the abstraction function
//! (`project`) that maps a real node to the JSON shape of the TLA+ specification's `View(n)`.
use crate::codec::{self, WId, WMsg, WNodeDigest, WOp};
use chitchat::{
    Chitchat, ChitchatConfig, ChitchatId, ChitchatMessage, DeletionStatus, Deserializable,
    FailureDetectorConfig, NodeState, Serializable, VersionedValue,
};
use serde_json::{json, Map, Value};
use std::collections::{BTreeMap, HashMap, HashSet};
use std::net::SocketAddr;
use std::panic::{catch_unwind, AssertUnwindSafe};
use std::sync::atomic::{AtomicUsize, Ordering};
use std::sync::{Arc, Mutex};
use std::time::Duration;
use tokio::sync::watch;
use tokio::time::Instant;

pub const TICK: Duration = Duration::from_secs(1);

pub fn node_index(name: &str) -> u16 {
    let digits: String = name.chars().filter(|c| c.is_ascii_digit()).collect();
    if let Ok(i) = digits.parse::<u16>() {
        if i < 5000 {
            return i;
        }
    }
    let mut h: u32 = 2166136261;
    for b in name.bytes() {
        h = (h ^ b as u32).wrapping_mul(16777619);
    }
    5000 + (h % 20000) as u16
}

pub fn addr_of(name: &str) -> SocketAddr {
    // "n5" advertises an IPv4-mapped IPv6 address (a dual-stack deployment): its identity must survive
    // every encode / decode unchanged
    if name == "n5" {
        return SocketAddr::new(std::net::IpAddr::V6(std::net::Ipv4Addr::new(127, 0, 0, 1).to_ipv6_mapped()), 10000 + node_index(name));
    }
    SocketAddr::from(([127, 0, 0, 1], 10000 + node_index(name)))
}

/// Model name -> identity. "n1" is (node_id "n1", generation 0, 127.0.0.1:10001); "n1~2" is a later
/// incarnation of the same node: same node_id and address, generation 2.
pub fn split_name(name: &str) -> (&str, u64) {
    match name.rsplit_once('~') {
        Some((base, g)) => match g.parse::<u64>() {
            Ok(g) => (base, g),
            Err(_) => (name, 0),
        },
        None => (name, 0),
    }
}

pub fn cid(name: &str) -> ChitchatId {
    let (base, g) = split_name(name);
    ChitchatId::new(base.to_string(), g, addr_of(base))
}

pub fn wid(name: &str) -> WId {
    let (base, g) = split_name(name);
    WId { node_id: base.to_string(), generation: g, addr: addr_of(base) }
}

/// Identity -> model name; identities that are not of the canonical form (possible only in
/// hostile / mutated datagrams) get a name that spells out what differs.
pub fn name_of(node_id: &str, generation: u64, addr: &SocketAddr) -> String {
    if *addr == addr_of(node_id) {
        if generation == 0 { node_id.to_string() } else { format!("{node_id}~{generation}") }
    } else {
        format!("{node_id}~{generation}@{addr}")
    }
}
pub fn name_of_cid(id: &ChitchatId) -> String {
    name_of(&id.node_id, id.generation_id, &id.gossip_advertise_addr)
}
pub fn name_of_wid(id: &WId) -> String {
    name_of(&id.node_id, id.generation, &id.addr)
}

#[derive(Clone, Debug)]
pub struct FdCfg {
    pub phi: f64,
    pub window: usize,
    pub max_interval: u64,
    pub initial: u64,
    pub dead_grace: u64,
}

impl Default for FdCfg {
    fn default() -> Self {
        FdCfg { phi: 8.0, window: 3, max_interval: 10, initial: 5, dead_grace: 86400 }
    }
}

#[derive(Clone, Debug, Default)]
pub struct WorldCfg {
    pub nodes: Vec<String>,
    pub clusters: HashMap<String, String>,
    pub grace: u64,
    pub fd: FdCfg,
    /// >0: model values are realised as pseudo-random 7-bit strings of this many bytes.
    pub val_size: usize,
    /// extra liveness predicate `kv[key] == value` (visible), if any.
    pub pred: Option<(String, String)>,
    pub listeners: bool,
}

impl WorldCfg {
    pub fn from_json(v: &Value) -> WorldCfg {
        let mut c = WorldCfg { grace: 2, ..Default::default() };
        if let Some(a) = v.get("nodes").and_then(|x| x.as_array()) {
            c.nodes = a.iter().map(|x| x.as_str().unwrap().to_string()).collect();
        }
        if let Some(o) = v.get("clusters").and_then(|x| x.as_object()) {
            for (k, x) in o {
                c.clusters.insert(k.clone(), x.as_str().unwrap().to_string());
            }
        }
        if let Some(g) = v.get("grace").and_then(|x| x.as_u64()) {
            c.grace = g;
        }
        if let Some(f) = v.get("fd") {
            c.fd = FdCfg {
                phi: f.get("phi").and_then(|x| x.as_f64()).unwrap_or(8.0),
                window: f.get("window").and_then(|x| x.as_u64()).unwrap_or(1000) as usize,
                max_interval: f.get("max_interval").and_then(|x| x.as_u64()).unwrap_or(10),
                initial: f.get("initial").and_then(|x| x.as_u64()).unwrap_or(5),
                dead_grace: f.get("dead_grace").and_then(|x| x.as_u64()).unwrap_or(86400),
            };
        }
        if let Some(s) = v.get("val_size").and_then(|x| x.as_u64()) {
            c.val_size = s as usize;
        }
        if let Some(p) = v.get("pred").and_then(|x| x.as_array()) {
            if p.len() == 2 {
                c.pred =
                    Some((p[0].as_str().unwrap().to_string(), p[1].as_str().unwrap().to_string()));
            }
        }
        c
    }
}

pub struct RealNode {
    pub name: String,
    pub cc: Chitchat,
    pub cb: Arc<AtomicUsize>,
    pub watch_rx: watch::Receiver<BTreeMap<ChitchatId, NodeState>>,
    pub wseq: u64,
    _seeds_tx: watch::Sender<HashSet<SocketAddr>>,
}

/// A produced message: the real bytes plus who made it for whom.
#[derive(Clone)]
pub struct RealMsg {
    pub bytes: Vec<u8>,
    pub src: String,
    pub dst: String,
}

pub struct World {
    pub cfg: WorldCfg,
    pub rt: tokio::runtime::Runtime,
    pub start: Instant,
    pub nodes: BTreeMap<String, RealNode>,
    pub vals: HashMap<String, String>,
    pub rvals: HashMap<String, String>,
    pub serialize_panics: Arc<Mutex<Vec<String>>>,
}

fn st_name(s: &DeletionStatus) -> &'static str {
    match s {
        DeletionStatus::Set => "Set",
        DeletionStatus::Deleted(_) => "Del",
        DeletionStatus::DeleteAfterTtl(_) => "Ttl",
    }
}

pub fn st_code_name(c: u8) -> &'static str {
    match c {
        0 => "Set",
        1 => "Del",
        2 => "Ttl",
        _ => "Bad",
    }
}

pub fn st_name_code(s: &str) -> u8 {
    match s {
        "Set" => 0,
        "Del" => 1,
        "Ttl" => 2,
        _ => 9,
    }
}

/// Deterministic pseudo-random 7-bit string (valid UTF-8, compresses to about 7/8).
pub fn big_value(name: &str, size: usize) -> String {
    let mut h: u64 = 0x9E3779B97F4A7C15;
    for b in name.bytes() {
        h = (h ^ b as u64).wrapping_mul(0x100000001B3);
    }
    let mut s = String::with_capacity(size);
    let mut x = h | 1;
    while s.len() < size {
        x ^= x << 13;
        x ^= x >> 7;
        x ^= x << 17;
        let mut y = x;
        for _ in 0..8 {
            if s.len() >= size {
                break;
            }
            s.push(((y & 0x7f) as u8) as char);
            y >>= 8;
        }
    }
    s
}

pub fn install_quiet_panic_hook() {
    std::panic::set_hook(Box::new(|_| {}));
}

pub fn panic_text(e: Box<dyn std::any::Any + Send>) -> String {
    if let Some(s) = e.downcast_ref::<&str>() {
        s.to_string()
    } else if let Some(s) = e.downcast_ref::<String>() {
        s.clone()
    } else {
        "panic".to_string()
    }
}

impl World {
    pub fn new(cfg: WorldCfg) -> World {
        let rt = tokio::runtime::Builder::new_current_thread()
            .enable_time()
            .start_paused(true)
            .build()
            .unwrap();
        let start;
        let mut nodes = BTreeMap::new();
        {
            let _g = rt.enter();
            start = Instant::now();
            for name in &cfg.nodes {
                nodes.insert(name.clone(), Self::make_node(&cfg, name));
            }
        }
        World {
            cfg,
            rt,
            start,
            nodes,
            vals: HashMap::new(),
            rvals: HashMap::new(),
            serialize_panics: Arc::new(Mutex::new(Vec::new())),
        }
    }

    fn make_node(cfg: &WorldCfg, name: &str) -> RealNode {
        let cb = Arc::new(AtomicUsize::new(0));
        let cb2 = cb.clone();
        // the predicate compares with the realised value when model values stand for big strings
        let pred = cfg.pred.clone().map(|(k, v)| {
            if cfg.val_size > 0 && !v.is_empty() { (k, big_value(&v, cfg.val_size)) } else { (k, v) }
        });
        let config = ChitchatConfig {
            chitchat_id: cid(name),
            cluster_id: cfg.clusters.get(name).cloned().unwrap_or_else(|| "c".to_string()),
            gossip_interval: TICK,
            listen_addr: cid(name).gossip_advertise_addr,
            seed_nodes: Vec::new(),
            failure_detector_config: FailureDetectorConfig {
                phi_threshold: cfg.fd.phi,
                sampling_window_size: cfg.fd.window,
                max_interval: TICK * cfg.fd.max_interval as u32,
                initial_interval: TICK * cfg.fd.initial as u32,
                dead_node_grace_period: TICK * cfg.fd.dead_grace as u32,
            },
            marked_for_deletion_grace_period: TICK * cfg.grace as u32,
            catchup_callback: Some(Box::new(move || {
                cb2.fetch_add(1, Ordering::SeqCst);
            })),
            extra_liveness_predicate: pred.map(|(k, v)| {
                let f: Box<dyn Fn(&NodeState) -> bool + Send> =
                    Box::new(move |ns: &NodeState| ns.get(&k) == Some(v.as_str()));
                f
            }),
        };
        let (seeds_tx, seeds_rx) = watch::channel(HashSet::new());
        let cc = Chitchat::with_chitchat_id_and_seeds(config, seeds_rx, Vec::new());
        let watch_rx = cc.live_nodes_watcher();
        RealNode { name: name.to_string(), cc, cb, watch_rx, wseq: 0, _seeds_tx: seeds_tx }
    }

    pub fn now_ticks(&self) -> u64 {
        let _g = self.rt.enter();
        (Instant::now() - self.start).as_secs()
    }

    pub fn ticks_of(&self, i: Instant) -> u64 {
        (i - self.start).as_secs()
    }

    pub fn advance(&mut self, d: u64) {
        self.rt.block_on(async { tokio::time::advance(TICK * d as u32).await });
    }

    pub fn real_val(&mut self, name: &str) -> String {
        if self.cfg.val_size == 0 || name.is_empty() {
            return name.to_string();
        }
        if let Some(v) = self.vals.get(name) {
            return v.clone();
        }
        let v = big_value(name, self.cfg.val_size);
        self.vals.insert(name.to_string(), v.clone());
        self.rvals.insert(v.clone(), name.to_string());
        v
    }

    pub fn model_val(&self, real: &str) -> String {
        if let Some(n) = self.rvals.get(real) {
            return n.clone();
        }
        if real.len() > 64 {
            return format!("?big{}", real.len());
        }
        real.to_string()
    }

    fn project_copy(&self, ns: &NodeState) -> Value {
        let mut kv = Map::new();
        for (k, vv) in ns.key_values_including_deleted() {
            let ts = match vv.status.time_of_start_scheduled_for_deletion() {
                Some(i) => self.ticks_of(i),
                None => 0,
            };
            kv.insert(
                k.to_string(),
                json!({"val": self.model_val(&vv.value), "ver": vv.version, "st": st_name(&vv.status), "ts": ts}),
            );
        }
        json!({"hb": u64::from(ns.heartbeat()), "max": ns.max_version(), "gc": ns.last_gc_version(), "kv": kv})
    }

    /// The abstraction function: everything read through chitchat's public API.
    pub fn project(&mut self, n: &str) -> Value {
        let _g = self.rt.enter();
        // watch bookkeeping first (needs &mut)
        {
            let node = self.nodes.get_mut(n).unwrap();
            if node.watch_rx.has_changed().unwrap_or(false) {
                node.wseq += 1;
                let _ = node.watch_rx.borrow_and_update();
            }
        }
        let node = self.nodes.get(n).unwrap();
        let mut ns = Map::new();
        for (id, st) in node.cc.node_states() {
            ns.insert(name_of_cid(id), self.project_copy(st));
        }
        let setmap = |it: &mut dyn Iterator<Item = &ChitchatId>| {
            let mut m = Map::new();
            for id in it {
                m.insert(name_of_cid(id), Value::Bool(true));
            }
            Value::Object(m)
        };
        let live = setmap(&mut node.cc.live_nodes());
        let dead = setmap(&mut node.cc.dead_nodes());
        let sched = setmap(&mut node.cc.scheduled_for_deletion_nodes());
        let mut w = Map::new();
        for (id, st) in node.watch_rx.borrow().iter() {
            w.insert(name_of_cid(id), json!(st.max_version()));
        }
        // failure-detector windows (hook verif_fd_windows): sample count, sum, tick of the last report
        let now = self.now_ticks() as i64;
        let mut fd = Map::new();
        for (id, len, sum, elapsed) in node.cc.verif_fd_windows() {
            let last = match elapsed { Some(e) => now - e.round() as i64, None => -1 };
            fd.insert(name_of_cid(&id), json!({"n": len, "sum": sum.round() as i64, "last": last}));
        }
        json!({"ns": ns, "live": live, "dead": dead, "sched": sched, "watch": w, "fd": fd,
               "wseq": node.wseq, "cb": node.cb.load(Ordering::SeqCst)})
    }

    // ------------------------------------------------------------ messages

    /// Model view of real message bytes, through the independent codec.
    pub fn project_msg(&self, m: &RealMsg) -> Value {
        match codec::decode(&m.bytes) {
            Ok(d) => {
                let mut v = self.model_of_wmsg(&d.msg);
                v["src"] = json!(m.src);
                v["dst"] = json!(m.dst);
                v
            }
            Err(e) => json!({"t": "Undecodable", "err": e, "src": m.src, "dst": m.dst}),
        }
    }

    pub fn model_of_digest(&self, d: &[WNodeDigest]) -> Value {
        digest_model(d)
    }

    /// Folds an op stream into the per-member delta map, by the documented meaning of the ops.
    pub fn model_of_ops(&self, ops: &[WOp]) -> Value {
        ops_model(ops, &|v| self.model_val(v))
    }

    pub fn model_of_wmsg(&self, w: &WMsg) -> Value {
        wmsg_model(w, &|v| self.model_val(v))
    }

    /// Builds wire bytes from a model message (used for adversarial / crafted deliveries).
    pub fn wmsg_of_model(&mut self, v: &Value) -> WMsg {
        let digest = |d: &Value| -> Vec<WNodeDigest> {
            let mut out = Vec::new();
            if let Some(o) = d.as_object() {
                for (k, x) in o {
                    out.push(WNodeDigest {
                        id: wid(k),
                        hb: x["hb"].as_u64().unwrap_or(0),
                        gc: x["gc"].as_u64().unwrap_or(0),
                        max: x["max"].as_u64().unwrap_or(0),
                    });
                }
            }
            out
        };
        let t = v["t"].as_str().unwrap_or("");
        match t {
            "Syn" => WMsg::Syn {
                cluster: v["cluster"].as_str().unwrap_or("c").to_string(),
                digest: digest(&v["digest"]),
            },
            "SynAck" => {
                let ops = self.ops_of_model(v);
                WMsg::SynAck { digest: digest(&v["digest"]), ops }
            }
            "Ack" => {
                let ops = self.ops_of_model(v);
                WMsg::Ack { ops }
            }
            _ => WMsg::BadCluster,
        }
    }

    /// Either an explicit op list (`ops`: [{"o":"Node","x":..,"gc":..,"from":..}, {"o":"KV",..},
    /// {"o":"SetMax","max":..}]) or a delta map (`delta`) in honest shape.
    pub fn ops_of_model(&mut self, v: &Value) -> Vec<WOp> {
        let mut ops = Vec::new();
        if let Some(a) = v.get("ops").and_then(|x| x.as_array()) {
            for o in a.clone() {
                match o["o"].as_str().unwrap_or("") {
                    "Node" => ops.push(WOp::Node {
                        id: wid(o["x"].as_str().unwrap()),
                        gc: o["gc"].as_u64().unwrap_or(0),
                        from: o["from"].as_u64().unwrap_or(0),
                    }),
                    "KV" => {
                        let val = self.real_val(o["v"].as_str().unwrap_or(""));
                        ops.push(WOp::KV {
                            key: o["k"].as_str().unwrap_or("").to_string(),
                            val,
                            ver: o["ver"].as_u64().unwrap_or(0),
                            st: st_name_code(o["st"].as_str().unwrap_or("Set")),
                        })
                    }
                    _ => ops.push(WOp::SetMax { max: o["max"].as_u64().unwrap_or(0) }),
                }
            }
            return ops;
        }
        if let Some(d) = v.get("delta").and_then(|x| x.as_object()) {
            for (x, nd) in d.clone() {
                ops.push(WOp::Node {
                    id: wid(&x),
                    gc: nd["gc"].as_u64().unwrap_or(0),
                    from: nd["from"].as_u64().unwrap_or(0),
                });
                let kvs = nd["kvs"].as_array().cloned().unwrap_or_default();
                for kv in &kvs {
                    let val = self.real_val(kv["v"].as_str().unwrap_or(""));
                    ops.push(WOp::KV {
                        key: kv["k"].as_str().unwrap_or("").to_string(),
                        val,
                        ver: kv["ver"].as_u64().unwrap_or(0),
                        st: st_name_code(kv["st"].as_str().unwrap_or("Set")),
                    });
                }
                let max = nd["max"].as_u64().unwrap_or(0);
                if kvs.is_empty() && max > 0 {
                    ops.push(WOp::SetMax { max });
                }
            }
        }
        ops
    }

    // ------------------------------------------------------------ steps on real nodes

    pub fn api(&mut self, n: &str, op: &str, k: &str, v: &str) -> Option<String> {
        let val = self.real_val(v);
        let _g = self.rt.enter();
        let node = self.nodes.get_mut(n).unwrap();
        let r = catch_unwind(AssertUnwindSafe(|| {
            let s = node.cc.self_node_state();
            match op {
                "Set" => s.set(k, val),
                "SetTtl" => s.set_with_ttl(k, val),
                "Delete" => s.delete(k),
                "DeleteTtl" => s.delete_after_ttl(k),
                _ => panic!("unknown api op {op}"),
            }
        }));
        r.err().map(panic_text)
    }

    pub fn simple(&mut self, n: &str, what: &str) -> Option<String> {
        let _g = self.rt.enter();
        let node = self.nodes.get_mut(n).unwrap();
        let r = catch_unwind(AssertUnwindSafe(|| match what {
            "Heartbeat" => node.cc.verif_update_self_heartbeat(),
            "Gc" => node.cc.verif_gc_keys_marked_for_deletion(),
            "Liveness" => node.cc.verif_update_nodes_liveness(),
            _ => panic!("unknown step {what}"),
        }));
        r.err().map(panic_text)
    }

    pub fn create_syn(&mut self, n: &str, to: &str) -> Result<RealMsg, String> {
        let _g = self.rt.enter();
        let node = self.nodes.get_mut(n).unwrap();
        let r = catch_unwind(AssertUnwindSafe(|| {
            let m = node.cc.verif_create_syn_message();
            m.serialize_to_vec()
        }));
        match r {
            Ok(bytes) => Ok(RealMsg { bytes, src: n.to_string(), dst: to.to_string() }),
            Err(e) => Err(panic_text(e)),
        }
    }

    /// Delivers bytes to node `n` exactly as the UDP socket would: decode, then process.
    /// Returns (decoded?, reply bytes?, panic?).
    pub fn deliver(&mut self, n: &str, bytes: &[u8]) -> (bool, Option<Vec<u8>>, Option<String>) {
        let _g = self.rt.enter();
        let node = self.nodes.get_mut(n).unwrap();
        let dec = catch_unwind(AssertUnwindSafe(|| {
            let mut cur: &[u8] = bytes;
            ChitchatMessage::deserialize(&mut cur).ok()
        }));
        let msg = match dec {
            Err(e) => return (false, None, Some(format!("decode: {}", panic_text(e)))),
            Ok(None) => return (false, None, None),
            Ok(Some(m)) => m,
        };
        let r = catch_unwind(AssertUnwindSafe(|| node.cc.verif_process_message(msg)));
        match r {
            Err(e) => (true, None, Some(format!("process: {}", panic_text(e)))),
            Ok(None) => (true, None, None),
            Ok(Some(reply)) => {
                let ser = catch_unwind(AssertUnwindSafe(|| {
                    let b = reply.serialize_to_vec();
                    (b, reply.serialized_len())
                }));
                match ser {
                    Ok((b, announced)) => {
                        if announced != b.len() {
                            (true, Some(b), Some(format!("serialize: announced {} wrote", announced)))
                        } else {
                            (true, Some(b), None)
                        }
                    }
                    Err(e) => (true, None, Some(format!("serialize: {}", panic_text(e)))),
                }
            }
        }
    }

    pub fn catchup(&mut self, n: &str, x: &str, kvs: &Value, max: u64, gc: u64) -> Option<String> {
        let mut items: Vec<(String, VersionedValue)> = Vec::new();
        if let Some(o) = kvs.as_object() {
            for (k, e) in o.clone() {
                let val = self.real_val(e["val"].as_str().unwrap_or(""));
                let _g = self.rt.enter();
                let now = Instant::now();
                let status = match e["st"].as_str().unwrap_or("Set") {
                    "Del" => DeletionStatus::Deleted(now),
                    "Ttl" => DeletionStatus::DeleteAfterTtl(now),
                    _ => DeletionStatus::Set,
                };
                items.push((
                    k,
                    VersionedValue { value: val, version: e["ver"].as_u64().unwrap_or(0), status },
                ));
            }
        }
        let _g = self.rt.enter();
        let node = self.nodes.get_mut(n).unwrap();
        let id = cid(x);
        let r = catch_unwind(AssertUnwindSafe(|| {
            node.cc.reset_node_state_if_update(&id, items.into_iter(), max, gc)
        }));
        r.err().map(panic_text)
    }
}

// ---- message modelling as free functions (also used by the server-level driver)
pub fn digest_model(d: &[WNodeDigest]) -> Value {
    let mut m = Map::new();
    for nd in d {
        m.insert(name_of_wid(&nd.id), json!({"hb": nd.hb, "gc": nd.gc, "max": nd.max}));
    }
    Value::Object(m)
}

/// Folds an op stream into the per-member delta map, by the documented meaning of the ops.
pub fn ops_model(ops: &[WOp], mv: &dyn Fn(&str) -> String) -> Value {
    let mut m = Map::new();
    let mut cur: Option<(String, Value)> = None;
    let mut ill = false;
    for op in ops {
        match op {
            WOp::Node { id, gc, from } => {
                if let Some((k, v)) = cur.take() {
                    if m.contains_key(&k) {
                        ill = true;
                    }
                    m.insert(k, v);
                }
                cur = Some((
                    name_of_wid(id),
                    json!({"from": from, "gc": gc, "max": 0, "kvs": []}),
                ));
            }
            WOp::KV { key, val, ver, st } => match cur.as_mut() {
                Some((_, v)) => {
                    v["kvs"].as_array_mut().unwrap().push(json!({"k": key, "v": mv(val), "ver": ver, "st": st_code_name(*st)}));
                    v["max"] = json!(ver);
                }
                None => ill = true,
            },
            WOp::SetMax { max } => match cur.as_mut() {
                Some((_, v)) => v["max"] = json!(max),
                None => ill = true,
            },
        }
    }
    if let Some((k, v)) = cur.take() {
        if m.contains_key(&k) {
            ill = true;
        }
        m.insert(k, v);
    }
    if ill {
        m.insert("?illformed".into(), json!(true));
    }
    Value::Object(m)
}

pub fn wmsg_model(w: &WMsg, mv: &dyn Fn(&str) -> String) -> Value {
    match w {
        WMsg::Syn { cluster, digest } => {
            json!({"t": "Syn", "cluster": cluster, "digest": digest_model(digest)})
        }
        WMsg::SynAck { digest, ops } => {
            json!({"t": "SynAck", "digest": digest_model(digest), "delta": ops_model(ops, mv)})
        }
        WMsg::Ack { ops } => json!({"t": "Ack", "delta": ops_model(ops, mv)}),
        WMsg::BadCluster => json!({"t": "Bad"}),
    }
}


