//! C19 binding: every script of Server.tla is run against the real `spawn_chitchat` loop on a
//! scripted in-process transport (public `Transport` / `Socket` traits) under tokio's paused clock.
//! After each script event the loop is left to run until it blocks; heartbeat increments, the
//! datagrams it tried to send (and whether the transport accepted them), and the termination
//! watcher are observed and compared with the specification's prediction for that event.
use async_trait::async_trait;
use chitchat::transport::{Socket, Transport};
use chitchat::{spawn_chitchat, ChitchatConfig, ChitchatMessage, Deserializable, FailureDetectorConfig, Serializable};
use serde_json::{json, Value};
use std::io::Write;
use std::net::SocketAddr;
use std::sync::{Arc, Mutex};
use std::time::Duration;
use tokio::sync::mpsc::{unbounded_channel, UnboundedReceiver, UnboundedSender};
use vharness::codec::{self, WMsg};
use vharness::world::{addr_of, cid};

enum Item { Msg(SocketAddr, Vec<u8>), Fatal }

#[derive(Default)]
struct Shared { log: Vec<(String, bool)>, fail_next: usize, panic_next: bool }

struct ScriptedTransport { shared: Arc<Mutex<Shared>>, rx: Mutex<Option<UnboundedReceiver<Item>>> }
struct ScriptedSocket { shared: Arc<Mutex<Shared>>, rx: UnboundedReceiver<Item> }

#[async_trait]
impl Transport for ScriptedTransport {
    async fn open(&self, _listen_addr: SocketAddr) -> anyhow::Result<Box<dyn Socket>> {
        let rx = self.rx.lock().unwrap().take().expect("opened once");
        Ok(Box::new(ScriptedSocket { shared: self.shared.clone(), rx }))
    }
}

fn tag_name(m: &ChitchatMessage) -> String {
    match m.serialize_to_vec().get(3) { Some(0) => "Syn", Some(1) => "SynAck", Some(2) => "Ack", Some(3) => "Bad", _ => "?" }.to_string()
}

#[async_trait]
impl Socket for ScriptedSocket {
    async fn send(&mut self, _to: SocketAddr, msg: ChitchatMessage) -> anyhow::Result<()> {
        let t = tag_name(&msg);
        let (panic_now, ok) = {
            let mut s = self.shared.lock().unwrap();
            if s.panic_next { s.panic_next = false; (true, false) } else {
                let ok = s.fail_next == 0;
                if !ok { s.fail_next -= 1; }
                s.log.push((t, ok));
                (false, ok)
            }
        };
        if panic_now { panic!("scripted panic inside Socket::send"); }
        if ok { Ok(()) } else { anyhow::bail!("scripted send failure (datagram too large / peer unreachable)") }
    }
    /// cancel-safe: an mpsc receive; an item is consumed only when it is returned
    async fn recv(&mut self) -> anyhow::Result<(SocketAddr, ChitchatMessage)> {
        match self.rx.recv().await {
            Some(Item::Msg(from, bytes)) => {
                let mut cur: &[u8] = &bytes;
                Ok((from, ChitchatMessage::deserialize(&mut cur)?))
            }
            Some(Item::Fatal) => anyhow::bail!("scripted fatal receive error"),
            None => std::future::pending().await,
        }
    }
}

async fn settle() { for _ in 0..40 { tokio::task::yield_now().await; } }

async fn run_script(steps: &[Value]) -> Vec<Value> {
    let (tx, rx): (UnboundedSender<Item>, _) = unbounded_channel();
    let shared = Arc::new(Mutex::new(Shared::default()));
    let transport = ScriptedTransport { shared: shared.clone(), rx: Mutex::new(Some(rx)) };
    let interval = Duration::from_secs(1);
    let config = ChitchatConfig {
        chitchat_id: cid("n1"), cluster_id: "c".into(), gossip_interval: interval, listen_addr: addr_of("n1"),
        seed_nodes: vec!["127.0.0.1:19999".to_string()],
        failure_detector_config: FailureDetectorConfig::default(),
        marked_for_deletion_grace_period: Duration::from_secs(1000),
        catchup_callback: None, extra_liveness_predicate: None,
    };
    let handle = spawn_chitchat(config, vec![], &transport).await.expect("spawn");
    let mut tw = Box::pin(handle.termination_watcher());
    let peer: SocketAddr = "127.0.0.1:18888".parse().unwrap();
    let hb_of = |h: &chitchat::ChitchatHandle| { let cc = h.chitchat(); async move { let mut g = cc.lock().await; u64::from(g.self_node_state().heartbeat()) } };
    let mut hb_prev = 0u64;
    let mut out = Vec::new();
    let mut term = "none".to_string();
    for st in steps {
        let e = st["e"].as_str().unwrap_or("");
        let hold = st["hold"].as_bool().unwrap_or(false);
        let mut locked_quiet = true;
        let apply = |e: &str| {
            match e {
                "RecvSyn" => { let _ = tx.send(Item::Msg(peer, codec::encode_default(&WMsg::Syn { cluster: "c".into(), digest: vec![] }))); }
                "RecvSynBad" => { let _ = tx.send(Item::Msg(peer, codec::encode_default(&WMsg::Syn { cluster: "other".into(), digest: vec![] }))); }
                "RecvAck" => { let _ = tx.send(Item::Msg(peer, codec::encode_default(&WMsg::Ack { ops: vec![] }))); }
                "RecvFatal" => { let _ = tx.send(Item::Fatal); }
                "CmdGossip" => { let _ = handle.gossip(peer); }
                "Shutdown" => { let _ = handle.initiate_shutdown(); }
                "SendFail" => { shared.lock().unwrap().fail_next += 1; }
                "SendPanic" => { shared.lock().unwrap().panic_next = true; }
                _ => {}
            }
        };
        if st["nosettle"].as_bool().unwrap_or(false) {
            // issued without waiting for the loop: the command stays queued; nothing is observed here
            apply(e);
            out.push(json!({"e": e, "hold": false, "nosettle": true, "dhb": 0, "sends": [], "term": term, "running": term == "none", "locked_quiet": true}));
            continue;
        }
        if e == "Start" {
            settle().await;
        } else if hold {
            let cc = handle.chitchat();
            let mut g = cc.lock().await;
            let hb0 = u64::from(g.self_node_state().heartbeat());
            let n0 = shared.lock().unwrap().log.len();
            if e == "Tick" { tokio::time::advance(interval).await; } else { apply(e); }
            settle().await;
            // while the user holds the state nothing can have been processed (fatal errors and
            // shutdown do not need the state and may complete)
            let hb1 = u64::from(g.self_node_state().heartbeat());
            let n1 = shared.lock().unwrap().log.len();
            locked_quiet = hb1 == hb0 && (n1 == n0 || e == "CmdGossip" && false);
            drop(g);
            settle().await;
        } else {
            if e == "Tick" { tokio::time::advance(interval).await; } else { apply(e); }
            settle().await;
        }
        let hb_now = hb_of(&handle).await;
        let sends: Vec<Value> = shared.lock().unwrap().log.drain(..).map(|(t, ok)| json!({"t": t, "ok": ok})).collect();
        if term == "none" {
            tokio::select! {
                biased;
                r = &mut tw => { term = match r { Ok(()) => "ok".into(), Err(e) => if e.to_string().contains("panicked") { "panic".into() } else { "err".into() } }; }
                _ = std::future::ready(()) => {}
            }
        }
        out.push(json!({"e": e, "hold": hold, "nosettle": false, "dhb": hb_now - hb_prev, "sends": sends, "term": term, "running": term == "none", "locked_quiet": locked_quiet}));
        hb_prev = hb_now;
    }
    // a shutdown request must always complete: the join handle resolves
    out
}


// ---------------------------------------------------------------------------------------------
// Server-level cluster driver: several REAL `spawn_chitchat` loops on one controlled transport,
// paused clock, staggered gossip rounds (node i ticks at seconds i, i+K, i+2K, ...). The driver
// decides when an in-flight datagram is delivered, dropped or duplicated; everything the loops do is
// recorded at message granularity and validated by TraceGossip: a round of node n is the model
// sequence Heartbeat(n); Gc(n); CreateSyn(n,p) for every SYN it sent; Liveness(n).
mod cluster {
    use super::*;
    use chitchat::{ChitchatHandle, NodeState};
    use rand::prelude::*;
    use std::collections::HashMap;
    use std::sync::atomic::{AtomicUsize, Ordering};
    use vharness::world::{digest_model, name_of_cid, wmsg_model};

    #[derive(Default)]
    pub struct Net { pub sent: Vec<(SocketAddr, SocketAddr, Vec<u8>)>, pub inbox: HashMap<SocketAddr, UnboundedSender<Item>> }
    pub struct CtlTransport { pub net: Arc<Mutex<Net>> }
    pub struct CtlSocket { addr: SocketAddr, rx: UnboundedReceiver<Item>, net: Arc<Mutex<Net>> }

    #[async_trait]
    impl Transport for CtlTransport {
        async fn open(&self, listen_addr: SocketAddr) -> anyhow::Result<Box<dyn Socket>> {
            let (tx, rx) = unbounded_channel();
            self.net.lock().unwrap().inbox.insert(listen_addr, tx);
            Ok(Box::new(CtlSocket { addr: listen_addr, rx, net: self.net.clone() }))
        }
    }
    #[async_trait]
    impl Socket for CtlSocket {
        async fn send(&mut self, to: SocketAddr, msg: ChitchatMessage) -> anyhow::Result<()> {
            self.net.lock().unwrap().sent.push((self.addr, to, msg.serialize_to_vec()));
            Ok(())
        }
        async fn recv(&mut self) -> anyhow::Result<(SocketAddr, ChitchatMessage)> {
            match self.rx.recv().await {
                Some(Item::Msg(from, bytes)) => { let mut cur: &[u8] = &bytes; Ok((from, ChitchatMessage::deserialize(&mut cur)?)) }
                Some(Item::Fatal) => anyhow::bail!("fatal"),
                None => std::future::pending().await,
            }
        }
    }

    struct N { name: String, handle: ChitchatHandle, cb: Arc<AtomicUsize>, wrx: tokio::sync::watch::Receiver<std::collections::BTreeMap<chitchat::ChitchatId, NodeState>>, wseq: u64 }

    fn name_of_addr(a: &SocketAddr) -> String { format!("n{}", a.port() - 10000) }

    async fn project(n: &mut N, start: tokio::time::Instant) -> Value {
        if n.wrx.has_changed().unwrap_or(false) { n.wseq += 1; let _ = n.wrx.borrow_and_update(); }
        let cc = n.handle.chitchat();
        let g = cc.lock().await;
        let mut ns = serde_json::Map::new();
        for (id, st) in g.node_states() {
            let mut kv = serde_json::Map::new();
            for (k, vv) in st.key_values_including_deleted() {
                let (stn, ts) = match vv.status { chitchat::DeletionStatus::Set => ("Set", 0), chitchat::DeletionStatus::Deleted(i) => ("Del", (i - start).as_secs()), chitchat::DeletionStatus::DeleteAfterTtl(i) => ("Ttl", (i - start).as_secs()) };
                kv.insert(k.to_string(), json!({"val": vv.value, "ver": vv.version, "st": stn, "ts": ts}));
            }
            ns.insert(name_of_cid(id), json!({"hb": u64::from(st.heartbeat()), "max": st.max_version(), "gc": st.last_gc_version(), "kv": kv}));
        }
        let setm = |it: &mut dyn Iterator<Item = &chitchat::ChitchatId>| { let mut m = serde_json::Map::new(); for id in it { m.insert(name_of_cid(id), json!(true)); } Value::Object(m) };
        let live = setm(&mut g.live_nodes());
        let dead = setm(&mut g.dead_nodes());
        let sched = setm(&mut g.scheduled_for_deletion_nodes());
        let mut w = serde_json::Map::new();
        for (id, st) in n.wrx.borrow().iter() { w.insert(name_of_cid(id), json!(st.max_version())); }
        let now = (tokio::time::Instant::now() - start).as_secs() as i64;
        let mut fd = serde_json::Map::new();
        for (id, len, sum, elapsed) in g.verif_fd_windows() {
            let last = match elapsed { Some(e) => now - e.round() as i64, None => -1 };
            fd.insert(name_of_cid(&id), json!({"n": len, "sum": sum.round() as i64, "last": last}));
        }
        json!({"ns": ns, "live": live, "dead": dead, "sched": sched, "watch": w, "fd": fd, "wseq": n.wseq, "cb": n.cb.load(Ordering::SeqCst)})
    }

    fn model_msg(from: &SocketAddr, to: &SocketAddr, bytes: &[u8]) -> Value {
        match codec::decode(bytes) {
            Ok(d) => { let mut v = wmsg_model(&d.msg, &|x| x.to_string()); v["src"] = json!(name_of_addr(from)); v["dst"] = json!(name_of_addr(to)); v }
            Err(e) => json!({"t": "Undecodable", "err": e}),
        }
    }

    pub async fn run(seed: u64, k: usize, steps: usize, out: &mut impl Write) {
        let _ = digest_model;
        let mut rng = StdRng::seed_from_u64(seed);
        let net = Arc::new(Mutex::new(Net::default()));
        let transport = CtlTransport { net: net.clone() };
        let start = tokio::time::Instant::now();
        let names: Vec<String> = (1..=k).map(|i| format!("n{i}")).collect();
        let mut nodes: Vec<N> = Vec::new();
        let mut clock = 0u64;
        let mut consumed = 0usize;       // entries of net.sent already turned into events
        let mut wire: Vec<(SocketAddr, SocketAddr, Vec<u8>)> = Vec::new();
        writeln!(out, "{}", json!({"a": "Reset", "seed": seed})).unwrap();
        // emits the events of a round of node idx (its sends since `consumed`)
        macro_rules! round { ($idx:expr) => {{
            let name = nodes[$idx].name.clone();
            writeln!(out, "{}", json!({"a": "Heartbeat", "n": name, "clock": clock})).unwrap();
            writeln!(out, "{}", json!({"a": "Gc", "n": name, "clock": clock})).unwrap();
            let new: Vec<(SocketAddr, SocketAddr, Vec<u8>)> = { let g = net.lock().unwrap(); g.sent[consumed..].to_vec() };
            consumed += new.len();
            for (f, t, b) in new { writeln!(out, "{}", json!({"a": "CreateSyn", "n": name, "to": name_of_addr(&t), "out": model_msg(&f, &t, &b), "clock": clock})).unwrap(); wire.push((f, t, b)); }
            let post = project(&mut nodes[$idx], start).await;
            writeln!(out, "{}", json!({"a": "Liveness", "n": name, "clock": clock, "post": post})).unwrap();
        }}; }
        // spawn node i at second i-1; its first round runs at once
        for (i, name) in names.iter().enumerate() {
            if i > 0 { tokio::time::advance(Duration::from_secs(1)).await; settle().await; clock += 1; writeln!(out, "{}", json!({"a": "Advance", "d": 1, "clock": clock})).unwrap(); }
            let cb = Arc::new(AtomicUsize::new(0));
            let cb2 = cb.clone();
            let config = ChitchatConfig {
                chitchat_id: cid(name), cluster_id: "c".into(), gossip_interval: Duration::from_secs(k as u64), listen_addr: addr_of(name),
                seed_nodes: vec![addr_of("n1").to_string()],
                failure_detector_config: FailureDetectorConfig { phi_threshold: 4.0, sampling_window_size: 3, max_interval: Duration::from_secs(10), initial_interval: Duration::from_secs(3), dead_node_grace_period: Duration::from_secs(12) },
                marked_for_deletion_grace_period: Duration::from_secs(4),
                catchup_callback: Some(Box::new(move || { cb2.fetch_add(1, Ordering::SeqCst); })), extra_liveness_predicate: None,
            };
            let handle = spawn_chitchat(config, vec![], &transport).await.expect("spawn");
            let wrx = { let cc = handle.chitchat(); let g = cc.lock().await; g.live_nodes_watcher() };
            nodes.push(N { name: name.clone(), handle, cb, wrx, wseq: 0 });
            settle().await;
            let idx = nodes.len() - 1;
            round!(idx);
        }
        let mut vc = 0;
        for _ in 0..steps {
            let r = rng.random_range(0..100);
            if r < 25 {
                // one second passes: exactly one node's round fires (node i at seconds = i-1 mod k)
                tokio::time::advance(Duration::from_secs(1)).await; settle().await; clock += 1;
                writeln!(out, "{}", json!({"a": "Advance", "d": 1, "clock": clock})).unwrap();
                let idx = (clock as usize) % k;
                round!(idx);
            } else if r < 70 {
                if wire.is_empty() { continue; }
                let i = rng.random_range(0..wire.len());
                let (f, t, b) = if rng.random_range(0..10) == 0 { wire[i].clone() } else { wire.remove(i) };
                if rng.random_range(0..10) == 0 { continue; }   // lost
                let dst = name_of_addr(&t);
                let Some(idx) = nodes.iter().position(|n| n.name == dst) else { continue };
                let tx = { net.lock().unwrap().inbox.get(&t).cloned() };
                if let Some(tx) = tx { let _ = tx.send(Item::Msg(f, b.clone())); }
                settle().await;
                let new: Vec<(SocketAddr, SocketAddr, Vec<u8>)> = { let g = net.lock().unwrap(); g.sent[consumed..].to_vec() };
                consumed += new.len();
                let post = project(&mut nodes[idx], start).await;
                let mut ev = json!({"a": "Process", "n": dst, "msg": model_msg(&f, &t, &b), "clock": clock, "post": post});
                if let Some((rf, rt, rb)) = new.first() { ev["out"] = model_msg(rf, rt, rb); wire.push((*rf, *rt, rb.clone())); }
                writeln!(out, "{}", ev).unwrap();
            } else {
                let idx = rng.random_range(0..nodes.len());
                let key = format!("k{}", rng.random_range(1..4));
                vc += 1;
                let (a, v) = match rng.random_range(0..4) { 0 => ("Delete", String::new()), 1 => ("SetTtl", format!("v{vc}")), _ => ("Set", format!("v{vc}")) };
                { let cc = nodes[idx].handle.chitchat(); let mut g = cc.lock().await; let st = g.self_node_state();
                  match a { "Delete" => st.delete(&key), "SetTtl" => st.set_with_ttl(key.clone(), v.clone()), _ => st.set(key.clone(), v.clone()) } }
                let post = project(&mut nodes[idx], start).await;
                writeln!(out, "{}", json!({"a": a, "n": nodes[idx].name, "k": key, "v": v, "clock": clock, "post": post})).unwrap();
            }
        }
        for n in nodes { let _ = n.handle.shutdown().await; }
    }
}

async fn udp_rounds(seed: u64, rounds: u64) -> Value {
    use rand::prelude::*;
    let mut rng = StdRng::seed_from_u64(seed);
    let free_port = || { let s = std::net::UdpSocket::bind("127.0.0.1:0").unwrap(); s.local_addr().unwrap().port() };
    let node_port = free_port();
    let closed_port = free_port();
    let node_addr: SocketAddr = format!("127.0.0.1:{node_port}").parse().unwrap();
    let mut id = cid("n1");
    id.gossip_advertise_addr = node_addr;
    let config = ChitchatConfig {
        chitchat_id: id, cluster_id: "c".into(), gossip_interval: Duration::from_millis(40), listen_addr: node_addr,
        seed_nodes: vec![format!("127.0.0.1:{closed_port}")],   // an unreachable peer: every round sends into a closed port
        failure_detector_config: FailureDetectorConfig { dead_node_grace_period: Duration::from_secs(2), ..FailureDetectorConfig::default() },
        marked_for_deletion_grace_period: Duration::from_secs(1000),
        catchup_callback: None, extra_liveness_predicate: None,
    };
    let handle = spawn_chitchat(config, vec![], &chitchat::transport::UdpTransport).await.expect("spawn udp");
    let mut tw = Box::pin(handle.termination_watcher());
    let tester = tokio::net::UdpSocket::bind("127.0.0.1:0").await.unwrap();
    let syn = codec::encode_default(&WMsg::Syn { cluster: "c".into(), digest: vec![] });
    let mut violations: Vec<String> = Vec::new();
    let (mut rounds_ok, mut garbage, mut last_hb) = (0u64, 0u64, 0u64);
    let mut tool_trouble: Option<String> = None;
    let mut oversized_ok = false;
    let mut buf = vec![0u8; 65536];
    for r in 0..rounds {
        // boundary lengths first: the empty datagram, and everything shorter than a message header
        for l in [0usize, 1, 2, 3, 4, 5] {
            let b: Vec<u8> = (0..l).map(|_| rng.random()).collect();
            let _ = tester.send_to(&b, node_addr).await;
            garbage += 1;
        }
        for k in 0..12 {
            let b: Vec<u8> = match k % 6 {
                0 => (0..rng.random_range(0..64)).map(|_| rng.random()).collect(),
                1 => { let mut v = syn.clone(); v.truncate(rng.random_range(0..v.len())); v }
                2 => { let mut v = syn[..4].to_vec(); while v.len() < 65507 { v.push(rng.random()); } v }
                3 => vec![0u8; rng.random_range(1..2000)],
                4 => { let mut v = syn.clone(); let p = rng.random_range(0..v.len()); v[p] ^= 0x40; v.extend((0..30).map(|_| rng.random::<u8>())); v }
                _ => (0..65507).map(|_| rng.random()).collect(),
            };
            let _ = tester.send_to(&b, node_addr).await;
            garbage += 1;
        }
        // wait for the SYN-ACK (garbage that happens to decode may be answered too: skip non-SYN-ACKs).
        // Datagrams can be dropped by the kernel under a flood of 64 KB garbage: the SYN is re-sent;
        // only a loop that has TERMINATED is a verdict, a missing answer from a live loop is tool trouble.
        let mut answered = false;
        for _attempt in 0..6 {
            let _ = tester.send_to(&syn, node_addr).await;
            let deadline = tokio::time::Instant::now() + Duration::from_secs(5);
            while tokio::time::Instant::now() < deadline && !answered {
                match tokio::time::timeout(Duration::from_millis(500), tester.recv_from(&mut buf)).await {
                    Ok(Ok((n, _))) => {
                        if let Ok(d) = codec::decode(&buf[..n]) {
                            if let WMsg::SynAck { digest, .. } = d.msg {
                                if let Some(me) = digest.iter().find(|x| x.id.node_id == "n1") {
                                    if me.hb > last_hb || r == 0 { last_hb = last_hb.max(me.hb); answered = true; }
                                }
                            }
                        }
                    }
                    _ => {}
                }
            }
            if answered { break; }
        }
        let mut ended = false;
        tokio::select! { biased; _ = &mut tw => { ended = true; } _ = std::future::ready(()) => {} }
        if ended { violations.push(format!("the gossip loop terminated after garbage datagrams / unreachable peer (round {r})")); break; }
        if !answered { tool_trouble = Some(format!("a valid SYN was not answered in 30 s by a loop that is still alive (round {r})")); break; }
        rounds_ok += 1;
    }
    // oversized sends on the real transport: 400 members with long ids learned through the public
    // catch-up entry point make the node's digest ~96 KB, so every SYN it sends is refused by the
    // kernel (EMSGSIZE) for about a second, until these never-heard-of members are scheduled for
    // deletion (grace/2 = 1 s) and leave the digest. Afterwards the node must send and answer again.
    if violations.is_empty() && tool_trouble.is_none() {
        {
            let cc = handle.chitchat();
            let mut g = cc.lock().await;
            for i in 0..400u32 {
                let id = chitchat::ChitchatId::new(format!("{:x>200}", i), 0, format!("10.9.{}.{}:7000", i / 250, i % 250 + 1).parse().unwrap());
                g.reset_node_state_if_update(&id, std::iter::empty(), 1, 0);
            }
        }
        tokio::time::sleep(Duration::from_millis(1800)).await;
        let mut answered = false;
        for _attempt in 0..6 {
            let _ = tester.send_to(&syn, node_addr).await;
            let deadline = tokio::time::Instant::now() + Duration::from_secs(5);
            while tokio::time::Instant::now() < deadline && !answered {
                if let Ok(Ok((n, _))) = tokio::time::timeout(Duration::from_millis(500), tester.recv_from(&mut buf)).await {
                    if let Ok(d) = codec::decode(&buf[..n]) { if let WMsg::SynAck { digest, .. } = d.msg { if digest.iter().any(|x| x.id.node_id == "n1" && x.hb > last_hb) { answered = true; } } }
                }
            }
            if answered { break; }
        }
        let mut ended = false;
        tokio::select! { biased; _ = &mut tw => { ended = true; } _ = std::future::ready(()) => {} }
        if ended { violations.push("the gossip loop terminated after oversized sends were refused by the kernel".into()); }
        else if !answered { violations.push("after a period of oversized (refused) sends the node no longer answers a valid SYN (30 s, 6 attempts) although its loop is alive".into()); }
        else { oversized_ok = true; }
    }
    let hb_a = { let cc = handle.chitchat(); let mut g = cc.lock().await; u64::from(g.self_node_state().heartbeat()) };
    let mut hb_b = hb_a;
    for _ in 0..100 {
        tokio::time::sleep(Duration::from_millis(100)).await;
        hb_b = { let cc = handle.chitchat(); let mut g = cc.lock().await; u64::from(g.self_node_state().heartbeat()) };
        if hb_b > hb_a { break; }
    }
    if violations.is_empty() && tool_trouble.is_none() && hb_b <= hb_a { violations.push("the node stopped heartbeating (no increment in 10 s at a 40 ms gossip interval)".into()); }
    let shut = tokio::time::timeout(Duration::from_secs(30), handle.shutdown()).await;
    let shutdown_ok = matches!(shut, Ok(Ok(())));
    if violations.is_empty() && tool_trouble.is_none() && !shutdown_ok { violations.push("shutdown request did not complete within 30 s".into()); }
    json!({"rounds": rounds, "rounds_ok": rounds_ok, "garbage_datagrams": garbage, "heartbeat_seen": last_hb,
           "heartbeat_progress": hb_b > hb_a, "shutdown_ok": shutdown_ok, "violations": violations, "tool_trouble": tool_trouble, "oversized_phase_ok": oversized_ok})
}

fn main() {
    vharness::world::install_quiet_panic_hook();
    let mode = std::env::args().nth(1).unwrap_or("scripts".into());
    let out = std::io::stdout();
    let mut out = out.lock();
    if mode == "cluster" {
        let seed: u64 = std::env::args().nth(2).and_then(|s| s.parse().ok()).unwrap_or(1);
        let traces: u64 = std::env::args().nth(3).and_then(|s| s.parse().ok()).unwrap_or(5);
        let k: usize = std::env::args().nth(4).and_then(|s| s.parse().ok()).unwrap_or(3);
        let steps: usize = std::env::args().nth(5).and_then(|s| s.parse().ok()).unwrap_or(80);
        for t in 0..traces {
            let rt = tokio::runtime::Builder::new_current_thread().enable_time().start_paused(true).build().unwrap();
            rt.block_on(cluster::run(seed * 1000 + t, k, steps, &mut out));
        }
        return;
    }
    if mode == "udp" {
        let seed: u64 = std::env::args().nth(2).and_then(|s| s.parse().ok()).unwrap_or(1);
        let rounds: u64 = std::env::args().nth(3).and_then(|s| s.parse().ok()).unwrap_or(2);
        let rt = tokio::runtime::Builder::new_multi_thread().worker_threads(2).enable_all().build().unwrap();
        let v = rt.block_on(udp_rounds(seed, rounds));
        writeln!(out, "{}", v).unwrap();
        return;
    }
    let max_report: u64 = std::env::args().nth(2).and_then(|s| s.parse().ok()).unwrap_or(20);
    let (mut total, mut bad) = (0u64, 0u64);
    let stdin = std::io::stdin();
    vharness::read_behaviours(stdin.lock(), |b| {
        total += 1;
        let steps = b["steps"].as_array().cloned().unwrap_or_default();
        let rt = tokio::runtime::Builder::new_current_thread().enable_time().start_paused(true).build().unwrap();
        let obs = rt.block_on(async { tokio::time::timeout(Duration::from_secs(100000), run_script(&steps)).await });
        drop(rt);
        let obs = match obs { Ok(o) => o, Err(_) => vec![json!({"e": "TIMEOUT"})] };
        // hb of the Start step is absolute (1 for creation + 1 for the start-up round): compare increments from there
        let mut ok = obs.len() == steps.len();
        if ok {
            for (i, (p, o)) in steps.iter().zip(obs.iter()).enumerate() {
                let dhb_ok = if i == 0 { o["dhb"].as_u64() == Some(p["dhb"].as_u64().unwrap_or(0) + 1) } else { o["dhb"] == p["dhb"] };
                if !(dhb_ok && o["sends"] == p["sends"] && o["term"] == p["term"] && o["running"] == p["running"] && o["locked_quiet"] == true) { ok = false; }
            }
        }
        if !ok {
            bad += 1;
            if bad <= max_report { writeln!(out, "{}", json!({"mismatch": true, "steps": steps, "observed": obs})).unwrap(); }
        }
    });
    writeln!(out, "{}", json!({"summary": true, "scripts": total, "mismatches": bad})).unwrap();
}
