//! C19 binding: every script of Server.tla is run against the real `spawn_chitchat` loop on a
//! scripted in-process transport (public `Transport` / `Socket` traits) under tokio's paused clock.
//! After each script event the loop is left to run until it blocks; heartbeat increments, the
//! datagrams it tried to send (and whether the transport accepted them), and the termination
//! watcher are observed and compared with the specification's prediction for that event.
use async_trait::async_trait;
use chitchat::transport::{Socket, Transport};
use chitchat::{spawn_chitchat, ChitchatConfig, ChitchatMessage, Deserializable, FailureDetectorConfig, Serializable};
use serde_json::{json, Value};
use std::io::Write;
use std::net::SocketAddr;
use std::sync::{Arc, Mutex};
use std::time::Duration;
use tokio::sync::mpsc::{unbounded_channel, UnboundedReceiver, UnboundedSender};
use vharness::codec::{self, WMsg};
use vharness::world::{addr_of, cid};

enum Item { Msg(SocketAddr, Vec<u8>), Fatal }

#[derive(Default)]
struct Shared { log: Vec<(String, bool)>, fail_next: usize, panic_next: bool }

struct ScriptedTransport { shared: Arc<Mutex<Shared>>, rx: Mutex<Option<UnboundedReceiver<Item>>> }
struct ScriptedSocket { shared: Arc<Mutex<Shared>>, rx: UnboundedReceiver<Item> }

#[async_trait]
impl Transport for ScriptedTransport {
    async fn open(&self, _listen_addr: SocketAddr) -> anyhow::Result<Box<dyn Socket>> {
        let rx = self.rx.lock().unwrap().take().expect("opened once");
        Ok(Box::new(ScriptedSocket { shared: self.shared.clone(), rx }))
    }
}

fn tag_name(m: &ChitchatMessage) -> String {
    match m.serialize_to_vec().get(3) { Some(0) => "Syn", Some(1) => "SynAck", Some(2) => "Ack", Some(3) => "Bad", _ => "?" }.to_string()
}

#[async_trait]
impl Socket for ScriptedSocket {
    async fn send(&mut self, _to: SocketAddr, msg: ChitchatMessage) -> anyhow::Result<()> {
        let t = tag_name(&msg);
        let (panic_now, ok) = {
            let mut s = self.shared.lock().unwrap();
            if s.panic_next { s.panic_next = false; (true, false) } else {
                let ok = s.fail_next == 0;
                if !ok { s.fail_next -= 1; }
                s.log.push((t, ok));
                (false, ok)
            }
        };
        if panic_now { panic!("scripted panic inside Socket::send"); }
        if ok { Ok(()) } else { anyhow::bail!("scripted send failure (datagram too large / peer unreachable)") }
    }
    /// cancel-safe: an mpsc receive; an item is consumed only when it is returned
    async fn recv(&mut self) -> anyhow::Result<(SocketAddr, ChitchatMessage)> {
        match self.rx.recv().await {
            Some(Item::Msg(from, bytes)) => {
                let mut cur: &[u8] = &bytes;
                Ok((from, ChitchatMessage::deserialize(&mut cur)?))
            }
            Some(Item::Fatal) => anyhow::bail!("scripted fatal receive error"),
            None => std::future::pending().await,
        }
    }
}

async fn settle() { for _ in 0..40 { tokio::task::yield_now().await; } }

async fn run_script(steps: &[Value]) -> Vec<Value> {
    let (tx, rx): (UnboundedSender<Item>, _) = unbounded_channel();
    let shared = Arc::new(Mutex::new(Shared::default()));
    let transport = ScriptedTransport { shared: shared.clone(), rx: Mutex::new(Some(rx)) };
    let interval = Duration::from_secs(1);
    let config = ChitchatConfig {
        chitchat_id: cid("n1"), cluster_id: "c".into(), gossip_interval: interval, listen_addr: addr_of("n1"),
        seed_nodes: vec!["127.0.0.1:19999".to_string()],
        failure_detector_config: FailureDetectorConfig::default(),
        marked_for_deletion_grace_period: Duration::from_secs(1000),
        catchup_callback: None, extra_liveness_predicate: None,
    };
    let handle = spawn_chitchat(config, vec![], &transport).await.expect("spawn");
    let mut tw = Box::pin(handle.termination_watcher());
    let peer: SocketAddr = "127.0.0.1:18888".parse().unwrap();
    let hb_of = |h: &chitchat::ChitchatHandle| { let cc = h.chitchat(); async move { let mut g = cc.lock().await; u64::from(g.self_node_state().heartbeat()) } };
    let mut hb_prev = 0u64;
    let mut out = Vec::new();
    let mut term = "none".to_string();
    for st in steps {
        let e = st["e"].as_str().unwrap_or("");
        let hold = st["hold"].as_bool().unwrap_or(false);
        let mut locked_quiet = true;
        let apply = |e: &str| {
            match e {
                "RecvSyn" => { let _ = tx.send(Item::Msg(peer, codec::encode_default(&WMsg::Syn { cluster: "c".into(), digest: vec![] }))); }
                "RecvSynBad" => { let _ = tx.send(Item::Msg(peer, codec::encode_default(&WMsg::Syn { cluster: "other".into(), digest: vec![] }))); }
                "RecvAck" => { let _ = tx.send(Item::Msg(peer, codec::encode_default(&WMsg::Ack { ops: vec![] }))); }
                "RecvFatal" => { let _ = tx.send(Item::Fatal); }
                "CmdGossip" => { let _ = handle.gossip(peer); }
                "Shutdown" => { let _ = handle.initiate_shutdown(); }
                "SendFail" => { shared.lock().unwrap().fail_next += 1; }
                "SendPanic" => { shared.lock().unwrap().panic_next = true; }
                _ => {}
            }
        };
        if e == "Start" {
            settle().await;
        } else if hold {
            let cc = handle.chitchat();
            let mut g = cc.lock().await;
            let hb0 = u64::from(g.self_node_state().heartbeat());
            let n0 = shared.lock().unwrap().log.len();
            if e == "Tick" { tokio::time::advance(interval).await; } else { apply(e); }
            settle().await;
            // while the user holds the state nothing can have been processed (fatal errors and
            // shutdown do not need the state and may complete)
            let hb1 = u64::from(g.self_node_state().heartbeat());
            let n1 = shared.lock().unwrap().log.len();
            locked_quiet = hb1 == hb0 && (n1 == n0 || e == "CmdGossip" && false);
            drop(g);
            settle().await;
        } else {
            if e == "Tick" { tokio::time::advance(interval).await; } else { apply(e); }
            settle().await;
        }
        let hb_now = hb_of(&handle).await;
        let sends: Vec<Value> = shared.lock().unwrap().log.drain(..).map(|(t, ok)| json!({"t": t, "ok": ok})).collect();
        if term == "none" {
            tokio::select! {
                biased;
                r = &mut tw => { term = match r { Ok(()) => "ok".into(), Err(e) => if e.to_string().contains("panicked") { "panic".into() } else { "err".into() } }; }
                _ = std::future::ready(()) => {}
            }
        }
        out.push(json!({"e": e, "hold": hold, "dhb": hb_now - hb_prev, "sends": sends, "term": term, "running": term == "none", "locked_quiet": locked_quiet}));
        hb_prev = hb_now;
    }
    // a shutdown request must always complete: the join handle resolves
    out
}

async fn udp_rounds(seed: u64, rounds: u64) -> Value {
    use rand::prelude::*;
    let mut rng = StdRng::seed_from_u64(seed);
    let free_port = || { let s = std::net::UdpSocket::bind("127.0.0.1:0").unwrap(); s.local_addr().unwrap().port() };
    let node_port = free_port();
    let closed_port = free_port();
    let node_addr: SocketAddr = format!("127.0.0.1:{node_port}").parse().unwrap();
    let mut id = cid("n1");
    id.gossip_advertise_addr = node_addr;
    let config = ChitchatConfig {
        chitchat_id: id, cluster_id: "c".into(), gossip_interval: Duration::from_millis(40), listen_addr: node_addr,
        seed_nodes: vec![format!("127.0.0.1:{closed_port}")],   // an unreachable peer: every round sends into a closed port
        failure_detector_config: FailureDetectorConfig::default(),
        marked_for_deletion_grace_period: Duration::from_secs(1000),
        catchup_callback: None, extra_liveness_predicate: None,
    };
    let handle = spawn_chitchat(config, vec![], &chitchat::transport::UdpTransport).await.expect("spawn udp");
    let mut tw = Box::pin(handle.termination_watcher());
    let tester = tokio::net::UdpSocket::bind("127.0.0.1:0").await.unwrap();
    let syn = codec::encode_default(&WMsg::Syn { cluster: "c".into(), digest: vec![] });
    let mut violations: Vec<String> = Vec::new();
    let (mut rounds_ok, mut garbage, mut last_hb) = (0u64, 0u64, 0u64);
    let mut buf = vec![0u8; 65536];
    for r in 0..rounds {
        for k in 0..12 {
            let b: Vec<u8> = match k % 6 {
                0 => (0..rng.random_range(0..64)).map(|_| rng.random()).collect(),
                1 => { let mut v = syn.clone(); v.truncate(rng.random_range(0..v.len())); v }
                2 => { let mut v = syn[..4].to_vec(); while v.len() < 65507 { v.push(rng.random()); } v }
                3 => vec![0u8; rng.random_range(1..2000)],
                4 => { let mut v = syn.clone(); let p = rng.random_range(0..v.len()); v[p] ^= 0x40; v.extend((0..30).map(|_| rng.random::<u8>())); v }
                _ => (0..65507).map(|_| rng.random()).collect(),
            };
            let _ = tester.send_to(&b, node_addr).await;
            garbage += 1;
        }
        let _ = tester.send_to(&syn, node_addr).await;
        // wait for the SYN-ACK (garbage that happens to decode may be answered too: skip non-SYN-ACKs)
        let deadline = tokio::time::Instant::now() + Duration::from_secs(5);
        let mut answered = false;
        while tokio::time::Instant::now() < deadline {
            match tokio::time::timeout(Duration::from_millis(500), tester.recv_from(&mut buf)).await {
                Ok(Ok((n, _))) => {
                    if let Ok(d) = codec::decode(&buf[..n]) {
                        if let WMsg::SynAck { digest, .. } = d.msg {
                            if let Some(me) = digest.iter().find(|x| x.id.node_id == "n1") {
                                if me.hb <= last_hb && last_hb > 0 && r > 0 { /* older reply */ } else { last_hb = me.hb; answered = true; break; }
                            }
                        }
                    }
                }
                _ => {}
            }
        }
        let mut ended = false;
        tokio::select! { biased; _ = &mut tw => { ended = true; } _ = std::future::ready(()) => {} }
        if ended { violations.push(format!("the gossip loop terminated after garbage datagrams / unreachable peer (round {r})")); break; }
        if !answered { violations.push(format!("a valid SYN was not answered within 5 s after garbage datagrams (round {r})")); break; }
        rounds_ok += 1;
    }
    // heartbeats kept increasing, and a shutdown request completes
    let hb_a = { let cc = handle.chitchat(); let mut g = cc.lock().await; u64::from(g.self_node_state().heartbeat()) };
    tokio::time::sleep(Duration::from_millis(200)).await;
    let hb_b = { let cc = handle.chitchat(); let mut g = cc.lock().await; u64::from(g.self_node_state().heartbeat()) };
    if violations.is_empty() && hb_b <= hb_a { violations.push("the node stopped heartbeating".into()); }
    let shut = tokio::time::timeout(Duration::from_secs(5), handle.shutdown()).await;
    let shutdown_ok = matches!(shut, Ok(Ok(())));
    if violations.is_empty() && !shutdown_ok { violations.push("shutdown request did not complete cleanly".into()); }
    json!({"rounds": rounds, "rounds_ok": rounds_ok, "garbage_datagrams": garbage, "heartbeat_seen": last_hb,
           "heartbeat_progress": hb_b > hb_a, "shutdown_ok": shutdown_ok, "violations": violations})
}

fn main() {
    vharness::world::install_quiet_panic_hook();
    let mode = std::env::args().nth(1).unwrap_or("scripts".into());
    let out = std::io::stdout();
    let mut out = out.lock();
    if mode == "udp" {
        let seed: u64 = std::env::args().nth(2).and_then(|s| s.parse().ok()).unwrap_or(1);
        let rounds: u64 = std::env::args().nth(3).and_then(|s| s.parse().ok()).unwrap_or(2);
        let rt = tokio::runtime::Builder::new_multi_thread().worker_threads(2).enable_all().build().unwrap();
        let v = rt.block_on(udp_rounds(seed, rounds));
        writeln!(out, "{}", v).unwrap();
        return;
    }
    let max_report: u64 = std::env::args().nth(2).and_then(|s| s.parse().ok()).unwrap_or(20);
    let (mut total, mut bad) = (0u64, 0u64);
    let stdin = std::io::stdin();
    vharness::read_behaviours(stdin.lock(), |b| {
        total += 1;
        let steps = b["steps"].as_array().cloned().unwrap_or_default();
        let rt = tokio::runtime::Builder::new_current_thread().enable_time().start_paused(true).build().unwrap();
        let obs = rt.block_on(async { tokio::time::timeout(Duration::from_secs(100000), run_script(&steps)).await });
        drop(rt);
        let obs = match obs { Ok(o) => o, Err(_) => vec![json!({"e": "TIMEOUT"})] };
        // hb of the Start step is absolute (1 for creation + 1 for the start-up round): compare increments from there
        let mut ok = obs.len() == steps.len();
        if ok {
            for (i, (p, o)) in steps.iter().zip(obs.iter()).enumerate() {
                let dhb_ok = if i == 0 { o["dhb"].as_u64() == Some(p["dhb"].as_u64().unwrap_or(0) + 1) } else { o["dhb"] == p["dhb"] };
                if !(dhb_ok && o["sends"] == p["sends"] && o["term"] == p["term"] && o["running"] == p["running"] && o["locked_quiet"] == true) { ok = false; }
            }
        }
        if !ok {
            bad += 1;
            if bad <= max_report { writeln!(out, "{}", json!({"mismatch": true, "steps": steps, "observed": obs})).unwrap(); }
        }
    });
    writeln!(out, "{}", json!({"summary": true, "scripts": total, "mismatches": bad})).unwrap();
}
