//! C07 size half, boundary-directed: a real node whose own digest is close to the datagram limit
//! (41 members with long ids) answers SYNs while one short-id member carries an entry whose size is
//! swept across the remaining room, with incompressible content so that the block is stored raw.
//! Every reply's real length is recorded for ObserveBudget.tla.
use serde_json::json;
use std::io::Write;
use vharness::codec::{self, Framing, WId, WMsg, WNodeDigest, WOp};
use vharness::world::{big_value, World, WorldCfg};

fn main() {
    vharness::world::install_quiet_panic_hook();
    let out = std::io::stdout();
    let mut out = out.lock();
    let like = Framing::Like { threshold: 16384 };
    let quick = std::env::args().nth(1).map(|s| s == "quick").unwrap_or(true);
    let pads: Vec<usize> = if quick { vec![1500, 1545, 1550, 1551, 1552] } else { (1400..1553).collect() };
    let (mut n, mut maxlen) = (0u64, 0usize);
    for pad in pads {
        // room left by the digest under the most generous reading (Limit - 1 - d)
        for dl in -14i64..=6 {
            let mut w = World::new(WorldCfg { nodes: vec!["n1".into()], grace: 1000, ..Default::default() });
            let mut digest = Vec::new();
            for i in 0..41u64 {
                let id = WId { node_id: format!("{:0>width$}", i, width = pad), generation: 0, addr: format!("10.0.0.{}:7000", i + 1).parse().unwrap() };
                digest.push(WNodeDigest { id, hb: 1, gc: 0, max: 0 });
            }
            let z = WId { node_id: "z".into(), generation: 0, addr: "10.0.1.1:7000".parse().unwrap() };
            digest.push(WNodeDigest { id: z.clone(), hb: 1, gc: 0, max: 0 });
            let _ = w.deliver("n1", &codec::encode(&WMsg::Syn { cluster: "c".into(), digest }, &like));
            // own digest length as the node will compute it: ask once with an empty member state
            let (_d, r0, _p) = w.deliver("n1", &codec::encode(&WMsg::Syn { cluster: "c".into(), digest: vec![] }, &like));
            let d0 = match r0 { Some(b) => codec::decode(&b).map(|x| x.digest_len).unwrap_or(0), None => 0 };
            if d0 == 0 { continue; }
            let room = 65507i64 - 1 - d0 as i64;           // stream bytes the unfixed code would allow
            let node_op = codec::op_len(&WOp::Node { id: z.clone(), gc: 0, from: 0 }) as i64;
            // stream = 3 + node_op + kv_op + 1 ; kv_op = 14 + klen + vlen ; choose vlen so that stream = room + dl
            let vlen = room + dl - 4 - node_op - 14 - 1;
            if vlen < 1 || vlen > 60000 { continue; }
            let ack = WMsg::Ack { ops: vec![WOp::Node { id: z.clone(), gc: 0, from: 0 }, WOp::KV { key: "k".into(), val: big_value("v", vlen as usize), ver: 1, st: 0 }] };
            let _ = w.deliver("n1", &codec::encode(&ack, &like));
            let (_d, reply, p) = w.deliver("n1", &codec::encode(&WMsg::Syn { cluster: "c".into(), digest: vec![] }, &like));
            if let Some(b) = reply {
                let dec = codec::decode(&b).unwrap();
                let delta = b.len() - 4 - dec.digest_len;
                n += 1;
                maxlen = maxlen.max(b.len());
                let carried: Vec<u64> = match &dec.msg { WMsg::SynAck { ops, .. } => ops.iter().filter_map(|o| if let WOp::KV { ver, .. } = o { Some(*ver) } else { None }).collect(), _ => vec![] };
                writeln!(out, "{}", json!({"kind": "SynAck", "pad": pad, "dl": dl, "vlen": vlen, "d": dec.digest_len, "total": b.len(), "delta": delta,
                    "included": delta > 1, "blocks": dec.blocks.iter().map(|x| x.kind).collect::<Vec<u8>>(), "panic": p,
                    "carried": carried, "sender": [1]})).unwrap();
            }
        }
    }
    // an entry that alone exceeds the room, followed by a small higher-version entry: running out of
    // space may only drop the tail (nothing may be carried past the entry that did not fit)
    for pad in if quick { vec![1400usize, 1500, 1545] } else { (1300..1550).step_by(10).collect::<Vec<usize>>() } {
        for extra in [1i64, 50, 3000] {
            for small_first in [false, true] {
                let mut w = World::new(WorldCfg { nodes: vec!["n1".into()], grace: 1000, ..Default::default() });
                let mut digest = Vec::new();
                for i in 0..41u64 {
                    let id = WId { node_id: format!("{:0>width$}", i, width = pad), generation: 0, addr: format!("10.0.0.{}:7000", i + 1).parse().unwrap() };
                    digest.push(WNodeDigest { id, hb: 1, gc: 0, max: 0 });
                }
                let z = WId { node_id: "z".into(), generation: 0, addr: "10.0.1.1:7000".parse().unwrap() };
                digest.push(WNodeDigest { id: z.clone(), hb: 1, gc: 0, max: 0 });
                let _ = w.deliver("n1", &codec::encode(&WMsg::Syn { cluster: "c".into(), digest }, &like));
                let (_d, r0, _p) = w.deliver("n1", &codec::encode(&WMsg::Syn { cluster: "c".into(), digest: vec![] }, &like));
                let d0 = match r0 { Some(b) => codec::decode(&b).map(|x| x.digest_len).unwrap_or(0), None => 0 };
                if d0 == 0 { continue; }
                let room = 65507i64 - 4 - d0 as i64;
                let big = (room + extra) as usize;
                let mut ops = vec![WOp::Node { id: z.clone(), gc: 0, from: 0 }];
                let mut sender = Vec::new();
                let mut ver = 0u64;
                if small_first { ver += 1; ops.push(WOp::KV { key: "a".into(), val: "s".into(), ver, st: 0 }); sender.push(ver); }
                ver += 1; ops.push(WOp::KV { key: "b".into(), val: big_value("big", big), ver, st: 0 }); sender.push(ver);
                ver += 1; ops.push(WOp::KV { key: "c".into(), val: "s".into(), ver, st: 0 }); sender.push(ver);
                let _ = w.deliver("n1", &codec::encode(&WMsg::Ack { ops }, &like));
                let (_d, reply, p) = w.deliver("n1", &codec::encode(&WMsg::Syn { cluster: "c".into(), digest: vec![] }, &like));
                if let Some(b) = reply {
                    let dec = codec::decode(&b).unwrap();
                    let delta = b.len() - 4 - dec.digest_len;
                    let carried: Vec<u64> = match &dec.msg { WMsg::SynAck { ops, .. } => ops.iter().filter_map(|o| if let WOp::KV { ver, .. } = o { Some(*ver) } else { None }).collect(), _ => vec![] };
                    n += 1;
                    writeln!(out, "{}", json!({"kind": "SynAckHole", "pad": pad, "dl": extra, "vlen": big, "d": dec.digest_len, "total": b.len(), "delta": delta,
                        "included": !carried.is_empty(), "blocks": dec.blocks.iter().map(|x| x.kind).collect::<Vec<u8>>(), "panic": p,
                        "carried": carried, "sender": sender})).unwrap();
                }
            }
        }
    }
    // ---- large states: 1..40 members with 0..300 keys each, key / value lengths 0..65 000,
    // compressible and 7-bit random contents; random peer digests; budgets 100..65 507 with emphasis
    // on block (16 384) and small-budget boundaries. Every delta is recorded with what the sender
    // holds so that ObserveBudget can check size and tail-only truncation per member.
    {
        use rand::prelude::*;
        let seed: u64 = std::env::args().nth(2).and_then(|s| s.parse().ok()).unwrap_or(1);
        let mut rng = StdRng::seed_from_u64(seed);
        let worlds = if quick { 3 } else { 12 };
        let queries = if quick { 120 } else { 400 };
        for wi in 0..worlds {
            let m = *[1usize, 5, 40].choose(&mut rng).unwrap();
            let mut w = World::new(WorldCfg { nodes: vec!["n1".into()], grace: 100000, ..Default::default() });
            // short ids and long near-incompressible ones (a member header of 30 to 280 bytes), large generations
            let ids: Vec<WId> = (0..m).map(|i| {
                let node_id = match rng.random_range(0..3) { 0 => format!("m{i}"), _ => format!("m{i}-{}", big_value(&format!("id{wi}-{i}"), *[20usize, 60, 90, 150, 240].choose(&mut rng).unwrap())) };
                WId { node_id, generation: if rng.random_bool(0.5) { 0 } else { rng.random::<u64>() >> 1 }, addr: format!("10.1.{}.{}:7000", i / 200, i % 200 + 1).parse().unwrap() }
            }).collect();
            let _ = w.deliver("n1", &codec::encode(&WMsg::Syn { cluster: "c".into(), digest: ids.iter().map(|id| WNodeDigest { id: id.clone(), hb: 1, gc: 0, max: 0 }).collect() }, &like));
            let mut versions: Vec<Vec<u64>> = vec![Vec::new(); m];
            let mut maxv: Vec<u64> = vec![0; m];
            for (mi, id) in ids.iter().enumerate() {
                let nkeys = match rng.random_range(0..6) { 0 => 0, 1 => rng.random_range(1..4), 2 => 300, _ => rng.random_range(1..if m > 5 { 40 } else { 300 }) };
                let mut ver = 0u64;
                let mut batch: Vec<WOp> = Vec::new();
                let mut batch_bytes = 0usize;
                let mut from = 0u64;
                for ki in 0..nkeys {
                    ver += rng.random_range(1..3);
                    let klen = *[0usize, 1, 8, 8, 8, 40, 300].choose(&mut rng).unwrap();
                    let vlen = match rng.random_range(0..40) { 0 => 65000, 1 => 20000, 2 | 3 => 5000, 4..=8 => 300, 9 => 0, _ => rng.random_range(1..40) };
                    let st: u8 = match rng.random_range(0..8) { 0 => 1, 1 => 2, _ => 0 };
                    let key = format!("{ki:0>width$}", width = klen.max(if klen == 0 { 0 } else { 1 }));
                    let key = if klen == 0 && ki > 0 { format!("{ki}") } else { key };
                    let val = if st == 1 { String::new() } else if rng.random_bool(0.5) { "z".repeat(vlen) } else { big_value(&format!("{mi}-{ki}"), vlen) };
                    let op = WOp::KV { key, val, ver, st };
                    let ol = codec::op_len(&op);
                    if batch_bytes + ol > 60000 && !batch.is_empty() {
                        let mut ops = vec![WOp::Node { id: id.clone(), gc: 0, from }];
                        ops.append(&mut batch);
                        let _ = w.deliver("n1", &codec::encode(&WMsg::Ack { ops }, &like));
                        from = versions[mi].last().copied().unwrap_or(0);
                        batch_bytes = 0;
                    }
                    if ol > 65000 { continue; }
                    batch_bytes += ol;
                    batch.push(op);
                    versions[mi].push(ver);
                }
                if !batch.is_empty() {
                    let mut ops = vec![WOp::Node { id: id.clone(), gc: 0, from }];
                    ops.append(&mut batch);
                    let _ = w.deliver("n1", &codec::encode(&WMsg::Ack { ops }, &like));
                }
                // some members end with a max version above their last entry (as after the owner's newest
                // writes were deleted and collected): asked from the last entry on, the sender then emits a
                // member header followed by a SetMaxVersion op only
                maxv[mi] = versions[mi].last().copied().unwrap_or(0);
                if rng.random_range(0..3) == 0 {
                    let top = versions[mi].last().copied().unwrap_or(0);
                    maxv[mi] = top + rng.random_range(1..4);
                    let ops = vec![WOp::Node { id: id.clone(), gc: 0, from: top }, WOp::SetMax { max: maxv[mi] }];
                    let _ = w.deliver("n1", &codec::encode(&WMsg::Ack { ops }, &like));
                }
            }
            // what the node really holds (through the public API)
            let view = w.project("n1");
            let held: Vec<Vec<u64>> = ids.iter().map(|id| { let mut v: Vec<u64> = view["ns"][&vharness::world::name_of_wid(id)]["kv"].as_object().map(|o| o.values().map(|e| e["ver"].as_u64().unwrap()).collect()).unwrap_or_default(); v.sort(); v }).collect();
            // dense part: a digest that leaves only a few members stale (by their last entries or by a max
            // version above the last entry), and EVERY budget from 100 bytes (the smallest the property covers) up to just above the unconstrained
            // length -- so that each op boundary is approached byte by byte
            let mut dense: Vec<(Vec<WNodeDigest>, usize)> = Vec::new();
            for _ in 0..(if quick { 5 } else { 25 }) {
                let mut digest = Vec::new();
                // three to eight members are stale: preferably those whose max version is above their last entry
                // (asked from the last entry on: header + SetMaxVersion only), the others by their last 1-2 entries
                let mut order: Vec<usize> = (0..m).collect();
                order.shuffle(&mut rng);
                order.sort_by_key(|&mi| if maxv[mi] > held[mi].last().copied().unwrap_or(0) { 0 } else { 1 });
                let chosen: Vec<usize> = order.into_iter().take(rng.random_range(3..=8usize).min(m)).collect();
                for (mi, id) in ids.iter().enumerate() {
                    let top = held[mi].last().copied().unwrap_or(0);
                    let dmax = if chosen.contains(&mi) {
                        if maxv[mi] > top && rng.random_range(0..4) != 0 { top }
                        else { match rng.random_range(0..2) { 0 => held[mi].iter().rev().nth(1).copied().unwrap_or(0), _ => held[mi].iter().rev().nth(2).copied().unwrap_or(0) } }
                    } else { maxv[mi] };
                    digest.push(WNodeDigest { id: id.clone(), hb: 1, gc: 0, max: dmax });
                }
                let db = codec::encode_digest(&digest);
                let full = { let _g = w.rt.enter(); w.nodes.get("n1").unwrap().cc.verif_compute_delta(&db, 65507).map(|b| b.len()).unwrap_or(0) };
                if full > 100 && full < 2500 {
                    for mtu in 100..=(full + 10).max(100) { dense.push((digest.clone(), mtu)); }
                }
            }
            let ndense = dense.len();
            for q in 0..(queries + ndense) {
                let mut digest = Vec::new();
                for (mi, id) in ids.iter().enumerate() {
                    if rng.random_range(0..4) == 0 { continue; }
                    let top = held[mi].last().copied().unwrap_or(0);
                    let dmax = match rng.random_range(0..4) { 0 => 0, 1 => top, _ => rng.random_range(0..=top) };
                    digest.push(WNodeDigest { id: id.clone(), hb: 1, gc: 0, max: dmax });
                }
                let is_dense = q >= queries;
                if is_dense { digest = dense[q - queries].0.clone(); }
                let mtu: usize = if is_dense { dense[q - queries].1 } else { match rng.random_range(0..6) {
                    0 => rng.random_range(100..400),
                    1 => 16384 * rng.random_range(1..4) + rng.random_range(0..12) - 6,
                    2 => 65507 - rng.random_range(0..8),
                    3 => rng.random_range(100..3000),
                    _ => rng.random_range(100..65508),
                } };
                let db = codec::encode_digest(&digest);
                let r = std::panic::catch_unwind(std::panic::AssertUnwindSafe(|| { let _g = w.rt.enter(); w.nodes.get("n1").unwrap().cc.verif_compute_delta(&db, mtu) }));
                let (bytes, panic) = match r { Ok(Ok(b)) => (b, None), Ok(Err(e)) => (vec![], Some(e.to_string())), Err(e) => (vec![], Some(vharness::world::panic_text(e))) };
                let (ops, _bl, _c) = codec::decode_delta(&bytes).unwrap_or((vec![], vec![], 0));
                let mut members: Vec<serde_json::Value> = Vec::new();
                for op in &ops {
                    match op {
                        WOp::Node { id, from, .. } => {
                            let mi = ids.iter().position(|x| x == id).unwrap_or(0);
                            let dmax = digest.iter().find(|d| &d.id == id).map(|d| d.max).unwrap_or(0);
                            members.push(json!({"x": id.node_id, "from": from, "dmax": dmax, "carried": [], "sender": held[mi], "setmax": -1}));
                        }
                        WOp::KV { ver, .. } => { if let Some(m) = members.last_mut() { m["carried"].as_array_mut().unwrap().push(json!(ver)); } }
                        WOp::SetMax { max } => { if let Some(m) = members.last_mut() { m["setmax"] = json!(max); } }
                    }
                }
                n += 1;
                writeln!(out, "{}", json!({"kind": "Sweep", "world": wi, "q": q, "nmembers": m, "mtu": mtu, "len": bytes.len(), "members": members, "panic": panic.is_some(),
                    "d": 0, "total": 4 + bytes.len(), "delta": bytes.len(), "carried": [], "sender": []})).unwrap();
            }
        }
    }
    eprintln!("budget sweep: {n} replies, longest {maxlen}");
}
