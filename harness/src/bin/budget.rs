//! C07 size half, boundary-directed: a real node whose own digest is close to the datagram limit
//! (41 members with long ids) answers SYNs while one short-id member carries an entry whose size is
//! swept across the remaining room, with incompressible content so that the block is stored raw.
//! Every reply's real length is recorded for ObserveBudget.tla.
use serde_json::json;
use std::io::Write;
use vharness::codec::{self, Framing, WId, WMsg, WNodeDigest, WOp};
use vharness::world::{big_value, World, WorldCfg};

fn main() {
    vharness::world::install_quiet_panic_hook();
    let out = std::io::stdout();
    let mut out = out.lock();
    let like = Framing::Like { threshold: 16384 };
    let quick = std::env::args().nth(1).map(|s| s == "quick").unwrap_or(true);
    let pads: Vec<usize> = if quick { vec![1500, 1545, 1550, 1551, 1552] } else { (1400..1553).collect() };
    let (mut n, mut maxlen) = (0u64, 0usize);
    for pad in pads {
        // room left by the digest under the most generous reading (Limit - 1 - d)
        for dl in -14i64..=6 {
            let mut w = World::new(WorldCfg { nodes: vec!["n1".into()], grace: 1000, ..Default::default() });
            let mut digest = Vec::new();
            for i in 0..41u64 {
                let id = WId { node_id: format!("{:0>width$}", i, width = pad), generation: 0, addr: format!("10.0.0.{}:7000", i + 1).parse().unwrap() };
                digest.push(WNodeDigest { id, hb: 1, gc: 0, max: 0 });
            }
            let z = WId { node_id: "z".into(), generation: 0, addr: "10.0.1.1:7000".parse().unwrap() };
            digest.push(WNodeDigest { id: z.clone(), hb: 1, gc: 0, max: 0 });
            let _ = w.deliver("n1", &codec::encode(&WMsg::Syn { cluster: "c".into(), digest }, &like));
            // own digest length as the node will compute it: ask once with an empty member state
            let (_d, r0, _p) = w.deliver("n1", &codec::encode(&WMsg::Syn { cluster: "c".into(), digest: vec![] }, &like));
            let d0 = match r0 { Some(b) => codec::decode(&b).map(|x| x.digest_len).unwrap_or(0), None => 0 };
            if d0 == 0 { continue; }
            let room = 65507i64 - 1 - d0 as i64;           // stream bytes the unfixed code would allow
            let node_op = codec::op_len(&WOp::Node { id: z.clone(), gc: 0, from: 0 }) as i64;
            // stream = 3 + node_op + kv_op + 1 ; kv_op = 14 + klen + vlen ; choose vlen so that stream = room + dl
            let vlen = room + dl - 4 - node_op - 14 - 1;
            if vlen < 1 || vlen > 60000 { continue; }
            let ack = WMsg::Ack { ops: vec![WOp::Node { id: z.clone(), gc: 0, from: 0 }, WOp::KV { key: "k".into(), val: big_value("v", vlen as usize), ver: 1, st: 0 }] };
            let _ = w.deliver("n1", &codec::encode(&ack, &like));
            let (_d, reply, p) = w.deliver("n1", &codec::encode(&WMsg::Syn { cluster: "c".into(), digest: vec![] }, &like));
            if let Some(b) = reply {
                let dec = codec::decode(&b).unwrap();
                let delta = b.len() - 4 - dec.digest_len;
                n += 1;
                maxlen = maxlen.max(b.len());
                let carried: Vec<u64> = match &dec.msg { WMsg::SynAck { ops, .. } => ops.iter().filter_map(|o| if let WOp::KV { ver, .. } = o { Some(*ver) } else { None }).collect(), _ => vec![] };
                writeln!(out, "{}", json!({"kind": "SynAck", "pad": pad, "dl": dl, "vlen": vlen, "d": dec.digest_len, "total": b.len(), "delta": delta,
                    "included": delta > 1, "blocks": dec.blocks.iter().map(|x| x.kind).collect::<Vec<u8>>(), "panic": p,
                    "carried": carried, "sender": [1]})).unwrap();
            }
        }
    }
    // an entry that alone exceeds the room, followed by a small higher-version entry: running out of
    // space may only drop the tail (nothing may be carried past the entry that did not fit)
    for pad in if quick { vec![1400usize, 1500, 1545] } else { (1300..1550).step_by(10).collect::<Vec<usize>>() } {
        for extra in [1i64, 50, 3000] {
            for small_first in [false, true] {
                let mut w = World::new(WorldCfg { nodes: vec!["n1".into()], grace: 1000, ..Default::default() });
                let mut digest = Vec::new();
                for i in 0..41u64 {
                    let id = WId { node_id: format!("{:0>width$}", i, width = pad), generation: 0, addr: format!("10.0.0.{}:7000", i + 1).parse().unwrap() };
                    digest.push(WNodeDigest { id, hb: 1, gc: 0, max: 0 });
                }
                let z = WId { node_id: "z".into(), generation: 0, addr: "10.0.1.1:7000".parse().unwrap() };
                digest.push(WNodeDigest { id: z.clone(), hb: 1, gc: 0, max: 0 });
                let _ = w.deliver("n1", &codec::encode(&WMsg::Syn { cluster: "c".into(), digest }, &like));
                let (_d, r0, _p) = w.deliver("n1", &codec::encode(&WMsg::Syn { cluster: "c".into(), digest: vec![] }, &like));
                let d0 = match r0 { Some(b) => codec::decode(&b).map(|x| x.digest_len).unwrap_or(0), None => 0 };
                if d0 == 0 { continue; }
                let room = 65507i64 - 4 - d0 as i64;
                let big = (room + extra) as usize;
                let mut ops = vec![WOp::Node { id: z.clone(), gc: 0, from: 0 }];
                let mut sender = Vec::new();
                let mut ver = 0u64;
                if small_first { ver += 1; ops.push(WOp::KV { key: "a".into(), val: "s".into(), ver, st: 0 }); sender.push(ver); }
                ver += 1; ops.push(WOp::KV { key: "b".into(), val: big_value("big", big), ver, st: 0 }); sender.push(ver);
                ver += 1; ops.push(WOp::KV { key: "c".into(), val: "s".into(), ver, st: 0 }); sender.push(ver);
                let _ = w.deliver("n1", &codec::encode(&WMsg::Ack { ops }, &like));
                let (_d, reply, p) = w.deliver("n1", &codec::encode(&WMsg::Syn { cluster: "c".into(), digest: vec![] }, &like));
                if let Some(b) = reply {
                    let dec = codec::decode(&b).unwrap();
                    let delta = b.len() - 4 - dec.digest_len;
                    let carried: Vec<u64> = match &dec.msg { WMsg::SynAck { ops, .. } => ops.iter().filter_map(|o| if let WOp::KV { ver, .. } = o { Some(*ver) } else { None }).collect(), _ => vec![] };
                    n += 1;
                    writeln!(out, "{}", json!({"kind": "SynAckHole", "pad": pad, "dl": extra, "vlen": big, "d": dec.digest_len, "total": b.len(), "delta": delta,
                        "included": !carried.is_empty(), "blocks": dec.blocks.iter().map(|x| x.kind).collect::<Vec<u8>>(), "panic": p,
                        "carried": carried, "sender": sender})).unwrap();
                }
            }
        }
    }
    eprintln!("budget sweep: {n} replies, longest {maxlen}");
}
