//! C06 binding: replays op sequences on a real node's own namespace and compares every read with
//! what LocalKV.tla predicts (mode `replay`), or drives random sequences and records a trace for
//! TLC trace validation (mode `drive`).
use rand::prelude::*;
use serde_json::{json, Map, Value};
use std::io::Write;
use vharness::exec::{same, Run};
use vharness::world::{cid, WorldCfg};

fn reads(run: &mut Run, keys: &[String], prefixes: &[String]) -> Value {
    let view = run.world.project("n1");
    let _g = run.world.rt.enter();
    let node = run.world.nodes.get("n1").unwrap();
    let ns = node.cc.node_state(&cid("n1")).unwrap();
    let mut get = Map::new();
    let mut contains = Map::new();
    for k in keys {
        let g = ns.get(k);
        get.insert(k.clone(), match g { Some(v) => json!([run.world.model_val(v)]), None => json!([]) });
        contains.insert(k.clone(), json!(ns.contains_key(k)));
    }
    let kvs: Vec<Value> = ns.key_values().map(|(k, _)| json!(k)).collect();
    let mut prefix = Map::new();
    for p in prefixes {
        let it: Vec<Value> = ns.iter_prefix(p).map(|(k, _)| json!(k)).collect();
        prefix.insert(p.clone(), Value::Array(it));
    }
    // get / get_versioned must agree with the iteration on values too
    let mut vals_ok = true;
    for (k, v) in ns.key_values() {
        if ns.get(k) != Some(v) { vals_ok = false; }
        if ns.get_versioned(k).map(|vv| vv.value.as_str()) != Some(v) { vals_ok = false; }
    }
    for p in prefixes {
        for (k, vv) in ns.iter_prefix(p) {
            if ns.get_versioned(k).map(|x| x.version) != Some(vv.version) { vals_ok = false; }
        }
    }
    let own = &view["ns"]["n1"];
    json!({"get": get, "contains": contains, "kvs": kvs, "prefix": prefix,
           "count": ns.num_key_values(), "max": own["max"], "gc": own["gc"], "kv": own["kv"],
           "vals_ok": vals_ok})
}

fn main() {
    vharness::world::install_quiet_panic_hook();
    let args: Vec<String> = std::env::args().collect();
    let mode = args.get(1).map(|s| s.as_str()).unwrap_or("replay");
    let cfgv: Value = serde_json::from_str(args.get(2).map(|s| s.as_str()).unwrap_or("{}")).unwrap();
    let strs = |k: &str| -> Vec<String> {
        cfgv.get(k).and_then(|x| x.as_array()).map(|a| a.iter().map(|x| x.as_str().unwrap().to_string()).collect()).unwrap_or_default()
    };
    let keys = strs("keys");
    let prefixes = strs("prefixes");
    let mut wc = WorldCfg::from_json(&cfgv);
    wc.nodes = vec!["n1".to_string()];
    let out = std::io::stdout();
    let mut out = out.lock();
    match mode {
        "replay" => {
            let mut total = 0u64;
            let mut bad = 0u64;
            let mut steps_total = 0u64;
            let stdin = std::io::stdin();
            vharness::read_behaviours(stdin.lock(), |b| {
                total += 1;
                let steps = b["steps"].as_array().cloned().unwrap_or_default();
                steps_total += steps.len() as u64;
                let mut run = Run::new(wc.clone());
                run.run_all(&steps);
                let mut real = reads(&mut run, &keys, &prefixes);
                let vals_ok = real["vals_ok"].as_bool().unwrap_or(false);
                real.as_object_mut().unwrap().remove("vals_ok");
                let panicked = run.events.iter().any(|e| e.get("panic").is_some());
                if !same(&real, &b["expect"], false) || !vals_ok || panicked {
                    bad += 1;
                    if bad <= 20 {
                        writeln!(out, "{}", json!({"mismatch": true, "steps": steps, "expect": b["expect"], "real": real, "vals_ok": vals_ok, "events": run.events})).unwrap();
                    }
                }
            });
            writeln!(out, "{}", json!({"summary": true, "behaviours": total, "steps": steps_total, "mismatches": bad})).unwrap();
        }
        "drive" => {
            // random op sequences; one trace (NDJSON events incl. reads) per sequence, separated by
            // Reset events so that TLC validates many in one run
            let seed = cfgv.get("seed").and_then(|x| x.as_u64()).unwrap_or(1);
            let n = cfgv.get("traces").and_then(|x| x.as_u64()).unwrap_or(10);
            let len = cfgv.get("len").and_then(|x| x.as_u64()).unwrap_or(40) as usize;
            let vals = strs("vals");
            let advances: Vec<u64> = cfgv.get("advances").and_then(|x| x.as_array()).map(|a| a.iter().map(|x| x.as_u64().unwrap()).collect()).unwrap_or(vec![1]);
            // op weights: Set, SetTtl, Delete, DeleteTtl, Advance, Gc
            let w: Vec<u64> = cfgv.get("weights").and_then(|x| x.as_array()).map(|a| a.iter().map(|x| x.as_u64().unwrap()).collect()).unwrap_or(vec![3, 2, 1, 1, 2, 1]);
            let wsum: u64 = w.iter().sum();
            let mut rng = StdRng::seed_from_u64(seed);
            for _ in 0..n {
                let mut run = Run::new(wc.clone());
                writeln!(out, "{}", json!({"a": "Reset"})).unwrap();
                let mut steps: Vec<Value> = Vec::new();
                for i in 0..len {
                    let k = keys.choose(&mut rng).unwrap().clone();
                    let v = vals.choose(&mut rng).unwrap().clone();
                    let mut r = rng.random_range(0..wsum);
                    let mut which = 0usize;
                    while r >= w[which] { r -= w[which]; which += 1; }
                    let st = match which {
                        0 => json!({"a": "Set", "n": "n1", "k": k, "v": v}),
                        1 => json!({"a": "SetTtl", "n": "n1", "k": k, "v": v}),
                        2 => json!({"a": "Delete", "n": "n1", "k": k}),
                        3 => json!({"a": "DeleteTtl", "n": "n1", "k": k}),
                        4 => json!({"a": "Advance", "d": advances.choose(&mut rng).unwrap()}),
                        _ => json!({"a": "Gc", "n": "n1"}),
                    };
                    steps.push(st);
                    run.step(&steps, i);
                    let mut ev = run.events[i].clone();
                    let mut r = reads(&mut run, &keys, &prefixes);
                    r.as_object_mut().unwrap().remove("vals_ok");
                    let o = ev.as_object_mut().unwrap();
                    o.remove("post");
                    o.remove("out");
                    if !o.contains_key("k") { o.insert("k".into(), json!("")); }
                    if !o.contains_key("v") { o.insert("v".into(), json!("")); }
                    if !o.contains_key("d") { o.insert("d".into(), json!(0)); }
                    o.insert("reads".into(), r);
                    writeln!(out, "{}", ev).unwrap();
                }
            }
        }
        "exec" => {
            // re-executes given step lists and writes the recorded trace (same format as `drive`)
            let stdin = std::io::stdin();
            vharness::read_behaviours(stdin.lock(), |b| {
                let steps = b["steps"].as_array().cloned().unwrap_or_default();
                let mut run = Run::new(wc.clone());
                writeln!(out, "{}", json!({"a": "Reset"})).unwrap();
                for i in 0..steps.len() {
                    run.step(&steps, i);
                    let mut ev = run.events[i].clone();
                    let mut r = reads(&mut run, &keys, &prefixes);
                    r.as_object_mut().unwrap().remove("vals_ok");
                    let o = ev.as_object_mut().unwrap();
                    o.remove("post");
                    o.remove("out");
                    if !o.contains_key("k") { o.insert("k".into(), json!("")); }
                    if !o.contains_key("v") { o.insert("v".into(), json!("")); }
                    if !o.contains_key("d") { o.insert("d".into(), json!(0)); }
                    o.insert("reads".into(), r);
                    writeln!(out, "{}", ev).unwrap();
                }
            });
        }
        _ => {
            eprintln!("usage: localkv replay|drive|exec '<cfg json>'");
            std::process::exit(2);
        }
    }
}
