//! C08 binding. mode `shapes`: every message shape enumerated by Wire.tla is realised as concrete
//! bytes by the independent codec (several string contents per shape), then
//!   - the codec's byte counts are compared with the specification's layout arithmetic,
//!   - the real decoder must accept the bytes, consume all of them and announce their exact length,
//!   - for the real encoder's own framing the real encoder must reproduce the bytes exactly,
//!   - for other framings the real decoder's result must equal (Debug view) the result for the
//!     encoder's own framing of the same message.
//! mode `emitted`: messages produced by real nodes in a random cluster run are decoded by the codec,
//! re-encoded (identical bytes expected) and round-tripped through the real decoder.
use chitchat::{ChitchatMessage, Deserializable, Serializable};
use rand::prelude::*;
use serde_json::{json, Value};
use std::io::Write;
use std::net::SocketAddr;
use std::panic::{catch_unwind, AssertUnwindSafe};
use vharness::codec::{self, Framing, WId, WMsg, WNodeDigest, WOp};
use vharness::world::{big_value, panic_text};

fn content(kind: u8, len: usize, salt: u64) -> String {
    match kind {
        0 => "a".repeat(len),
        1 => big_value(&format!("s{salt}"), len),
        _ => {
            let mut s = "é".repeat(len / 2);
            if len % 2 == 1 { s.push('z'); }
            s
        }
    }
}

fn mk_id(shape: &Value, idx: u64, kind: u8) -> WId {
    let len = shape["len"].as_u64().unwrap_or(1) as usize;
    let v6 = shape["v6"].as_bool().unwrap_or(false);
    // IPv6 forms: IPv4-mapped, loopback, unspecified, documentation prefix -- all 16 octets on the wire
    let addr: SocketAddr = if v6 {
        match (idx + kind as u64) % 4 {
            0 => format!("[::ffff:10.1.{}.{}]:{}", (idx >> 8) & 255, idx & 255, 7000 + (idx % 100)).parse().unwrap(),
            1 => format!("[::1]:{}", 7000 + (idx % 100)).parse().unwrap(),
            2 => format!("[::]:{}", 7000 + (idx % 100)).parse().unwrap(),
            _ => format!("[2001:db8::{:x}]:{}", (idx % 60000) + 1, 7000 + (idx % 100)).parse().unwrap(),
        }
    } else { format!("10.{}.{}.{}:{}", (idx >> 16) & 255, (idx >> 8) & 255, idx & 255, 7000 + (idx % 100)).parse().unwrap() };
    WId { node_id: content(kind, len, idx), generation: idx, addr }
}

fn build(shape: &Value, kind: u8, rng: &mut StdRng) -> (WMsg, Framing) {
    let digest = |d: &Value| -> Vec<WNodeDigest> {
        let n = d["n"].as_u64().unwrap_or(0);
        let mut v: Vec<WNodeDigest> = (0..n).map(|i| WNodeDigest { id: mk_id(&d["id"], i, kind), hb: rng.random(), gc: rng.random::<u32>() as u64, max: rng.random::<u32>() as u64 }).collect();
        // the real digest is a map ordered by ChitchatId (node_id, generation, address)
        v.sort_by(|a, b| a.id.cmp(&b.id));
        v
    };
    let framing = match shape.get("framing") {
        Some(f) if f["mode"] == "raw" => Framing::Raw { threshold: f["T"].as_u64().unwrap() as usize },
        Some(f) if f["mode"] == "zstd" => Framing::Zstd { threshold: f["T"].as_u64().unwrap() as usize },
        _ => Framing::Like { threshold: 16384 },
    };
    let mut ver = 0u64;
    let ops: Vec<WOp> = shape.get("ops").and_then(|x| x.as_array()).map(|a| {
        a.iter().enumerate().map(|(i, o)| match o["o"].as_str().unwrap() {
            "Node" => { ver = 0; WOp::Node { id: mk_id(&o["id"], 1000 + i as u64, kind), gc: 3, from: 1 } }
            "KV" => { ver += 1 + (i as u64); WOp::KV { key: content(kind, o["klen"].as_u64().unwrap() as usize, i as u64), val: content(if o["st"].as_u64() == Some(1) { 0 } else { kind }, o["vlen"].as_u64().unwrap() as usize, 77 + i as u64), ver, st: o["st"].as_u64().unwrap() as u8 } }
            _ => WOp::SetMax { max: 1000 + i as u64 },
        }).collect()
    }).unwrap_or_default();
    let msg = match shape["t"].as_str().unwrap() {
        "Syn" => WMsg::Syn { cluster: content(kind, shape["cluster"].as_u64().unwrap() as usize, 5), digest: { let mut d = digest; d(&shape["digest"]) } },
        "SynAck" => WMsg::SynAck { digest: { let mut d = digest; d(&shape["digest"]) }, ops },
        "Ack" => WMsg::Ack { ops },
        _ => WMsg::BadCluster,
    };
    (msg, framing)
}

fn debug_view(m: &ChitchatMessage) -> String {
    // Delta's private `serialized_len` depends on the input framing: not part of the message
    let s = format!("{m:?}");
    let mut out = String::new();
    let mut rest = s.as_str();
    while let Some(p) = rest.find("serialized_len: ") {
        out.push_str(&rest[..p]);
        let tail = &rest[p + 16..];
        let end = tail.find(|c: char| !c.is_ascii_digit()).unwrap_or(tail.len());
        rest = &tail[end..];
    }
    out.push_str(rest);
    out
}

fn real_decode(bytes: &[u8]) -> Result<(ChitchatMessage, usize), String> {
    let r = catch_unwind(AssertUnwindSafe(|| {
        let mut cur: &[u8] = bytes;
        ChitchatMessage::deserialize(&mut cur).map(|m| (m, cur.len())).map_err(|e| e.to_string())
    }));
    match r { Ok(x) => x, Err(e) => Err(format!("PANIC {}", panic_text(e))) }
}

fn main() {
    vharness::world::install_quiet_panic_hook();
    let mode = std::env::args().nth(1).unwrap_or("shapes".into());
    let max_report: u64 = std::env::args().nth(2).and_then(|s| s.parse().ok()).unwrap_or(20);
    let out = std::io::stdout();
    let mut out = out.lock();
    let mut rng = StdRng::seed_from_u64(7);
    if mode == "shapes" {
        let (mut total, mut bad, mut checks) = (0u64, 0u64, 0u64);
        let stdin = std::io::stdin();
        vharness::read_behaviours(stdin.lock(), |case| {
            let shape = &case["shape"];
            let lay = &case["layout"];
            for kind in 0..3u8 {
                total += 1;
                let (msg, framing) = build(shape, kind, &mut rng);
                let bytes = codec::encode(&msg, &framing);
                let is_raw = matches!(framing, Framing::Raw { .. });
                let is_like = matches!(framing, Framing::Like { .. });
                let mut obs = serde_json::Map::new();
                obs.insert("codec_len".into(), json!(bytes.len()));
                let dec = codec::decode(&bytes).expect("codec decodes its own output");
                obs.insert("codec_raw".into(), json!(dec.raw_stream_len));
                obs.insert("codec_digest".into(), json!(dec.digest_len));
                obs.insert("codec_blocks".into(), json!(dec.blocks.len()));
                obs.insert("codec_self_ok".into(), json!(dec.msg == msg && dec.consumed == bytes.len()));
                let oplens: Vec<usize> = match &msg { WMsg::SynAck { ops, .. } | WMsg::Ack { ops } => ops.iter().map(codec::op_len).collect(), _ => vec![] };
                obs.insert("codec_oplens".into(), json!(oplens));
                let reser_ok = oplens.iter().all(|l| *l <= 65535);
                match real_decode(&bytes) {
                    Err(e) => { obs.insert("real_ok".into(), json!(false)); obs.insert("real_err".into(), json!(e)); }
                    Ok((rm, left)) => {
                        obs.insert("real_ok".into(), json!(true));
                        obs.insert("left".into(), json!(left));
                        obs.insert("announced".into(), json!(rm.serialized_len()));
                        // reference view: the same message through the real encoder's own framing
                        let like = codec::encode(&msg, &Framing::Like { threshold: 16384 });
                        match real_decode(&like) {
                            Ok((rl, _)) => { obs.insert("same_message".into(), json!(debug_view(&rl) == debug_view(&rm))); }
                            Err(e) => { obs.insert("same_message".into(), json!(false)); obs.insert("real_err".into(), json!(e)); }
                        }
                        if is_like && reser_ok {
                            let re = catch_unwind(AssertUnwindSafe(|| rm.serialize_to_vec()));
                            match re {
                                Ok(b2) => {
                                    obs.insert("reser_equal".into(), json!(b2 == bytes));
                                    obs.insert("reser_len".into(), json!(b2.len()));
                                    let d2 = codec::decode(&b2);
                                    obs.insert("codec_reads_real".into(), json!(d2.map(|d| d.msg == msg && d.consumed == b2.len()).unwrap_or(false)));
                                }
                                Err(e) => { obs.insert("reser_equal".into(), json!(false)); obs.insert("reser_panic".into(), json!(panic_text(e))); obs.insert("reser_len".into(), json!(0)); obs.insert("codec_reads_real".into(), json!(false)); }
                            }
                        }
                    }
                }
                // quick local screen (the verdict is TLC's, on the emitted record): anything unusual is reported
                let o = Value::Object(obs.clone());
                let fine = o["real_ok"] == true && o["left"] == 0 && o["announced"] == bytes.len() as u64
                    && o["same_message"] == true && o["codec_self_ok"] == true
                    && (is_raw && lay["total"].as_u64() == Some(bytes.len() as u64) || !is_raw && (bytes.len() as u64) <= lay.get("bound").and_then(|x| x.as_u64()).unwrap_or(u64::MAX) || lay.get("bound").is_none() && lay["total"].as_u64() == Some(bytes.len() as u64))
                    && o.get("reser_equal").map(|x| x == true).unwrap_or(true)
                    && o.get("codec_reads_real").map(|x| x == true).unwrap_or(true)
                    && lay.get("raw").map(|r| r.as_u64() == Some(dec.raw_stream_len as u64)).unwrap_or(true)
                    && lay.get("digest").map(|r| r.as_u64() == Some(dec.digest_len as u64)).unwrap_or(true);
                checks += 1;
                if !fine {
                    bad += 1;
                    if bad <= max_report {
                        writeln!(out, "{}", json!({"mismatch": true, "shape": shape, "kind": kind, "is_raw": is_raw, "obs": o})).unwrap();
                    }
                }
            }
        });
        writeln!(out, "{}", json!({"summary": true, "cases": total, "mismatches": bad, "checks": checks})).unwrap();
    } else {
        // emitted: bytes produced by real nodes (read as hex lines on stdin)
        let (mut total, mut bad) = (0u64, 0u64);
        let stdin = std::io::stdin();
        for line in std::io::BufRead::lines(stdin.lock()) {
            let line = line.unwrap();
            let bytes: Vec<u8> = (0..line.len() / 2).map(|i| u8::from_str_radix(&line[2 * i..2 * i + 2], 16).unwrap()).collect();
            total += 1;
            let mut why = Vec::new();
            match codec::decode(&bytes) {
                Err(e) => why.push(format!("codec cannot decode: {e}")),
                Ok(d) => {
                    if d.consumed != bytes.len() { why.push("codec: trailing bytes".into()); }
                    if codec::encode_default(&d.msg) != bytes { why.push("codec re-encoding differs".into()); }
                }
            }
            match real_decode(&bytes) {
                Err(e) => why.push(format!("real decoder: {e}")),
                Ok((m, left)) => {
                    if left != 0 { why.push("real decoder: trailing bytes".into()); }
                    if m.serialized_len() != bytes.len() { why.push("announced length differs".into()); }
                    match catch_unwind(AssertUnwindSafe(|| m.serialize_to_vec())) {
                        Ok(b2) => if b2 != bytes { why.push("real re-encoding differs".into()) },
                        Err(e) => why.push(format!("re-encode panic {}", panic_text(e))),
                    }
                }
            }
            if !why.is_empty() {
                bad += 1;
                if bad <= max_report { writeln!(out, "{}", json!({"mismatch": true, "len": bytes.len(), "why": why, "hex": &line[..line.len().min(400)]})).unwrap(); }
            }
        }
        writeln!(out, "{}", json!({"summary": true, "cases": total, "mismatches": bad})).unwrap();
    }
}
