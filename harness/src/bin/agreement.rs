//! C14 / C04-pairs / C20-pairs binding: each (sender copy, receiver copy, truncation point) case
//! enumerated by Agreement.tla is realised on two real nodes: copies are installed with crafted
//! ACKs through the independent codec, the delta is computed by the real sender from the
//! receiver's digest entry under a byte budget that lets exactly `b` key-values through, and is
//! delivered as an ACK to the real receiver.
use serde_json::{json, Map, Value};
use std::io::Write;
use vharness::codec::{self, Framing, WMsg, WNodeDigest, WOp};
use vharness::exec::same;
use vharness::world::{st_name_code, wid, World, WorldCfg};

const MEMBER: &str = "mmmmmmmmmmmmmmmmmmmmmmmmmmmmmmmmmmmmmmmmmmmmmmmmmmmmmmmmmmmmmmmmmmmmmmmmmmmmmmmmmmmmmmmmmmmmmmmm";

fn sorted_kvs(copy: &Value) -> Vec<(String, Value)> {
    let mut v: Vec<(String, Value)> = copy["kv"].as_object().map(|o| o.iter().map(|(k, e)| (k.clone(), e.clone())).collect()).unwrap_or_default();
    v.sort_by_key(|(_, e)| e["ver"].as_u64().unwrap_or(0));
    v
}

fn deliver(w: &mut World, n: &str, msg: &WMsg) -> Option<String> {
    let bytes = codec::encode(msg, &Framing::Like { threshold: 16384 });
    let (_d, _r, p) = w.deliver(n, &bytes);
    p
}

/// Installs `copy` of MEMBER on node n. Returns false when the node does not end up with it.
fn install(w: &mut World, n: &str, copy: &Value) -> bool {
    let x = wid(MEMBER);
    let syn = WMsg::Syn { cluster: "c".into(), digest: vec![WNodeDigest { id: x.clone(), hb: 1, gc: 0, max: 0 }] };
    deliver(w, n, &syn);
    let gc = copy["gc"].as_u64().unwrap_or(0);
    let max = copy["max"].as_u64().unwrap_or(0);
    let kvs = sorted_kvs(copy);
    if gc > 0 || max > 0 {
        let mut ops = vec![WOp::Node { id: x.clone(), gc, from: 0 }];
        let mut last = 0;
        for (k, e) in &kvs {
            let ver = e["ver"].as_u64().unwrap();
            ops.push(WOp::KV { key: k.clone(), val: e["val"].as_str().unwrap_or("").to_string(), ver, st: st_name_code(e["st"].as_str().unwrap_or("Set")) });
            last = ver;
        }
        if kvs.is_empty() && max > 0 {
            ops.push(WOp::SetMax { max });
        }
        deliver(w, n, &WMsg::Ack { ops });
        if !kvs.is_empty() && last < max {
            deliver(w, n, &WMsg::Ack { ops: vec![WOp::Node { id: x.clone(), gc, from: last }, WOp::SetMax { max }] });
        }
    }
    let v = w.project(n);
    let got = &v["ns"][MEMBER];
    let mut want = copy.clone();
    want.as_object_mut().unwrap().remove("hb");
    same(got, &want, true)
}

fn copy_of(w: &mut World, n: &str) -> Value {
    let v = w.project(n);
    let mut c = v["ns"][MEMBER].clone();
    if let Some(o) = c.as_object_mut() {
        o.insert("hb".into(), json!(0));
    }
    c
}

fn main() {
    vharness::world::install_quiet_panic_hook();
    let out = std::io::stdout();
    let mut out = out.lock();
    let mut total = 0u64;
    let mut bad = 0u64;
    let mut install_fail = 0u64;
    let mut nontrivial = 0u64;
    let stdin = std::io::stdin();
    let max_report: u64 = std::env::args().nth(1).and_then(|s| s.parse().ok()).unwrap_or(30);
    vharness::read_behaviours(stdin.lock(), |case| {
        total += 1;
        let mut w = World::new(WorldCfg { nodes: vec!["n1".into(), "n2".into()], grace: 1000, ..Default::default() });
        let ok_s = install(&mut w, "n1", &case["s"]);
        let ok_r = install(&mut w, "n2", &case["r"]);
        let b = case["b"].as_u64().unwrap_or(0) as usize;
        let r0 = copy_of(&mut w, "n2");
        let s0 = copy_of(&mut w, "n1");
        let cb0 = w.project("n2")["cb"].as_u64().unwrap_or(0);
        let dig = codec::encode_digest(&[WNodeDigest { id: wid(MEMBER), hb: 0, gc: r0["gc"].as_u64().unwrap_or(0), max: r0["max"].as_u64().unwrap_or(0) }]);
        // full delta first: real op sizes decide the byte budget that lets exactly b key-values in
        let full = { let _g = w.rt.enter(); w.nodes.get("n1").unwrap().cc.verif_compute_delta(&dig, 60000) };
        let mut observed = Map::new();
        let mut panic: Option<String> = None;
        match full {
            Err(e) => { panic = Some(format!("compute_delta: {e}")); }
            Ok(fullb) => {
                let (ops, _bl, _c) = codec::decode_delta(&fullb).unwrap_or((vec![], vec![], 0));
                if ops.is_empty() {
                    observed.insert("status".into(), json!("NoDelta"));
                    observed.insert("c".into(), r0.clone());
                } else {
                    nontrivial += 1;
                    let nkv = ops.iter().filter(|o| matches!(o, WOp::KV { .. })).count();
                    let take = b.min(nkv);
                    let mut mtu = 4;
                    let mut seen = 0;
                    for op in &ops {
                        if let WOp::KV { .. } = op { if seen == take { break; } seen += 1; }
                        if let WOp::SetMax { .. } = op { if take < nkv { break; } }
                        mtu += codec::op_len(op);
                    }
                    let cut = { let _g = w.rt.enter(); w.nodes.get("n1").unwrap().cc.verif_compute_delta(&dig, mtu.max(100)) };
                    match cut {
                        Err(e) => panic = Some(format!("compute_delta: {e}")),
                        Ok(cutb) => {
                            let (cops, _, _) = codec::decode_delta(&cutb).unwrap_or((vec![], vec![], 0));
                            let nd = w.model_of_ops(&cops);
                            observed.insert("nd".into(), nd[MEMBER].clone());
                            let mut msg = vec![];
                            msg.extend_from_slice(&codec::MAGIC.to_le_bytes());
                            msg.push(0);
                            msg.push(2);
                            msg.extend_from_slice(&cutb);
                            let (_d, _r, p) = w.deliver("n2", &msg);
                            let r1 = copy_of(&mut w, "n2");
                            let cb1 = w.project("n2")["cb"].as_u64().unwrap_or(0);
                            let status = if p.is_some() { "Panic" } else if same(&r1, &r0, true) { "Reject" } else if r1["gc"].as_u64() > r0["gc"].as_u64() { "Reset" } else { "Apply" };
                            observed.insert("status".into(), json!(status));
                            observed.insert("c".into(), r1);
                            observed.insert("panic".into(), json!(p.is_some()));
                            observed.insert("cb".into(), json!(cb1 - cb0));
                            if let Some(pp) = p { panic = Some(pp); }
                        }
                    }
                }
            }
        }
        let obs = Value::Object(observed);
        // compare with the prediction (status, resulting copy, node-delta); cb: 1 iff Reset
        let exp = &case["expect"];
        let mut ok = ok_s && ok_r && panic.is_none();
        if !ok_s || !ok_r { install_fail += 1; }
        if ok {
            ok = exp["status"] == obs["status"] && same(&exp["c"], &obs["c"], true);
            if ok && exp["status"] != "NoDelta" {
                ok = same(&exp["nd"], &obs["nd"], true)
                    && obs["cb"].as_u64() == Some(if exp["status"] == "Reset" { 1 } else { 0 });
            }
        }
        if !ok {
            bad += 1;
            if bad <= max_report {
                writeln!(out, "{}", json!({"mismatch": true, "s": case["s"], "r": case["r"], "b": b, "expect": exp,
                    "observed": obs, "real_s": s0, "real_r": r0, "install_ok": [ok_s, ok_r], "panic": panic})).unwrap();
            }
        }
    });
    writeln!(out, "{}", json!({"summary": true, "cases": total, "mismatches": bad, "install_fail": install_fail, "nontrivial": nontrivial})).unwrap();
}
