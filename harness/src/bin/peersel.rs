//! C17 binding: every input (peers, live, dead, seeds) enumerated by PeerSelection.tla is realised
//! as sets of real socket addresses and handed to the real `select_nodes_for_gossip` (through the
//! `verif` facade) under a battery of scripted and seeded random generators.
//!
//! This program does NOT judge the outputs.  It prints every distinct observed (input, output)
//! pair once (`{"obs":true,...}`); the TLA+ predicate `Allowed` is evaluated on those records by TLC
//! (ObservePeerSelection.tla).  A panic of the code under test is reported as the output
//! `nodes = ["panic"]`, which no specification allows.
//!
//! usage: peersel '<json config>'   (stdin: exported inputs, one per line)
//!   maps         number of concrete address assignments per input (1..=6)
//!   script_vals  scripted generators return, call by call, every combination of this many values
//!                spread over the u64 range (3 = {0, 2^63, MAX}); 0 disables
//!   script_len   length of the scripts (the function makes at most 7 draws for <= 6 addresses)
//!   std_seeds    number of seeded StdRng streams per input and address assignment
//!   seed         base seed of those streams
use rand::rngs::StdRng;
use rand::{SeedableRng, TryRng};
use serde_json::{json, Value};
use std::collections::{BTreeMap, HashMap, HashSet};
use std::convert::Infallible;
use std::io::Write;
use std::net::SocketAddr;
use std::panic::{catch_unwind, AssertUnwindSafe};

/// Generator that replays a fixed list of 64-bit outputs, cyclically. 32-bit draws take the high
/// half of the next value, so the all-ones script is all-ones for either width.
struct Script {
    vals: Vec<u64>,
    pos: usize,
}

impl TryRng for Script {
    type Error = Infallible;
    fn try_next_u32(&mut self) -> Result<u32, Infallible> {
        Ok((self.try_next_u64()? >> 32) as u32)
    }
    fn try_next_u64(&mut self) -> Result<u64, Infallible> {
        let v = self.vals[self.pos % self.vals.len()];
        self.pos += 1;
        Ok(v)
    }
    fn try_fill_bytes(&mut self, dest: &mut [u8]) -> Result<(), Infallible> {
        for chunk in dest.chunks_mut(8) {
            let b = self.try_next_u64()?.to_le_bytes();
            chunk.copy_from_slice(&b[..chunk.len()]);
        }
        Ok(())
    }
}

/// Counter generators: `start + k * step` on the k-th draw (step 1 = the code base's own test RNG,
/// which yields tiny fractions; a large step walks through the whole range).
struct Counter {
    next: u64,
    step: u64,
    low32: bool,
}

impl TryRng for Counter {
    type Error = Infallible;
    fn try_next_u32(&mut self) -> Result<u32, Infallible> {
        let v = self.try_next_u64()?;
        Ok(if self.low32 { v as u32 } else { (v >> 32) as u32 })
    }
    fn try_next_u64(&mut self) -> Result<u64, Infallible> {
        let v = self.next;
        self.next = self.next.wrapping_add(self.step);
        Ok(v)
    }
    fn try_fill_bytes(&mut self, dest: &mut [u8]) -> Result<(), Infallible> {
        for chunk in dest.chunks_mut(8) {
            let b = self.try_next_u64()?.to_le_bytes();
            chunk.copy_from_slice(&b[..chunk.len()]);
        }
        Ok(())
    }
}

/// Concrete address of model address number `i` (0-based) under assignment `map`.
fn concrete(map: usize, i: usize) -> SocketAddr {
    let s = match map % 6 {
        0 => format!("127.0.0.1:{}", 10001 + i),
        1 => format!("10.0.{}.{}:7280", 5 - i, 200 - 31 * i),
        2 => format!("[::1]:{}", 20000 + 7 * (6 - i)),
        3 => {
            if i % 2 == 0 {
                format!("192.168.1.{}:{}", 10 + i, 7000 - i)
            } else {
                format!("[fe80::{:x}]:{}", 1 + i, 7000 + i)
            }
        }
        4 => format!("127.0.0.{}:10001", 1 + i),
        _ => format!("172.16.{}.1:{}", (i * 37) % 250, 65535 - i),
    };
    s.parse().unwrap()
}

/// observed output in model names: (nodes, dead, seed, panic text)
type Out = (Vec<String>, String, String, Option<String>);

fn names_of(v: &Value) -> Vec<String> {
    v.as_array().map(|a| a.iter().filter_map(|x| x.as_str().map(|s| s.to_string())).collect()).unwrap_or_default()
}

fn main() {
    vharness::world::install_quiet_panic_hook();
    let cfg: Value = std::env::args().nth(1).and_then(|s| serde_json::from_str(&s).ok()).unwrap_or(json!({}));
    let maps = cfg["maps"].as_u64().unwrap_or(2).clamp(1, 6) as usize;
    let script_vals = cfg["script_vals"].as_u64().unwrap_or(3) as usize;
    let script_len = cfg["script_len"].as_u64().unwrap_or(7).max(1) as usize;
    let std_seeds = cfg["std_seeds"].as_u64().unwrap_or(8);
    let base_seed = cfg["seed"].as_u64().unwrap_or(1);
    let max_obs = cfg["max_obs"].as_u64().unwrap_or(2_000_000);

    // the values a scripted generator may return: evenly spread, both extremes included
    let vals: Vec<u64> = (0..script_vals)
        .map(|j| if j + 1 == script_vals { u64::MAX } else { ((j as u128) * (1u128 << 64) / ((script_vals.max(2) - 1) as u128)) as u64 })
        .collect();
    let digits = ["0", "1", "2", "3", "4", "5", "6", "7", "8", "9"];
    let nscripts: u64 = if script_vals == 0 { 0 } else { (script_vals as u64).pow(script_len as u32) };

    let out = std::io::stdout();
    let mut out = out.lock();
    let (mut cases, mut calls, mut observed, mut panics, mut printed) = (0u64, 0u64, 0u64, 0u64, 0u64);
    let mut rng_kinds: BTreeMap<&'static str, u64> = BTreeMap::new();
    let stdin = std::io::stdin();
    vharness::read_behaviours(stdin.lock(), |case| {
        cases += 1;
        let case_no = cases;
        let peers = names_of(&case["peers"]);
        let live = names_of(&case["live"]);
        let dead = names_of(&case["dead"]);
        let seeds = names_of(&case["seeds"]);
        // stable numbering of the model addresses of this input: by name
        let mut all: Vec<String> = peers.iter().chain(seeds.iter()).chain(live.iter()).chain(dead.iter()).cloned().collect();
        all.sort();
        all.dedup();
        let mut seen: HashMap<Out, (String, usize)> = HashMap::new();
        for map in 0..maps {
            let fwd: Vec<SocketAddr> = (0..all.len()).map(|i| concrete(map, i)).collect();
            let back: HashMap<SocketAddr, String> = fwd.iter().cloned().zip(all.iter().cloned()).collect();
            let to_set = |ns: &Vec<String>| -> HashSet<SocketAddr> {
                ns.iter().map(|n| fwd[all.iter().position(|m| m == n).unwrap()]).collect()
            };
            let (p, l, d, s) = (to_set(&peers), to_set(&live), to_set(&dead), to_set(&seeds));
            let name_of = |a: &SocketAddr| back.get(a).cloned().unwrap_or_else(|| format!("foreign:{a}"));
            let mut record = |kind: &'static str, rng_name: &dyn Fn() -> String, r: std::thread::Result<(Vec<SocketAddr>, Option<SocketAddr>, Option<SocketAddr>)>| {
                calls += 1;
                *rng_kinds.entry(kind).or_insert(0) += 1;
                let o: Out = match r {
                    Ok((nodes, dn, sn)) => (
                        nodes.iter().map(&name_of).collect(),
                        dn.as_ref().map(&name_of).unwrap_or_else(|| "none".into()),
                        sn.as_ref().map(&name_of).unwrap_or_else(|| "none".into()),
                        None,
                    ),
                    Err(e) => {
                        panics += 1;
                        (vec!["panic".into()], "none".into(), "none".into(), Some(vharness::world::panic_text(e)))
                    }
                };
                if !seen.contains_key(&o) {
                    seen.insert(o, (rng_name(), map));
                }
            };
            macro_rules! call {
                ($kind:expr, $name:expr, $rng:expr) => {{
                    let mut rng = $rng;
                    let (p2, l2, d2, s2) = (p.clone(), l.clone(), d.clone(), s.clone());
                    let r = catch_unwind(AssertUnwindSafe(|| chitchat::verif::verif_select_nodes_for_gossip(&mut rng, p2, l2, d2, s2)));
                    record($kind, &$name, r);
                }};
            }
            // the named extremes
            call!("zero", || "zero".to_string(), Script { vals: vec![0], pos: 0 });
            call!("ones", || "ones".to_string(), Script { vals: vec![u64::MAX], pos: 0 });
            call!("mid", || "mid".to_string(), Script { vals: vec![1u64 << 63], pos: 0 });
            call!("one", || "one".to_string(), Script { vals: vec![1 | (1u64 << 32)], pos: 0 });
            call!("counter", || "counter".to_string(), Counter { next: 0, step: 1, low32: true });
            call!("counter", || "counter-down".to_string(), Counter { next: u64::MAX, step: u64::MAX, low32: false });
            for k in [3u64, 5, 7, 11, 13] {
                call!("stride", || format!("stride:{k}"), Counter { next: k << 56, step: (u64::MAX / 16) * k, low32: false });
            }
            // every script over the value set
            let mut script = vec![0usize; script_len];
            for _ in 0..nscripts {
                let vs: Vec<u64> = script.iter().map(|&j| vals[j]).collect();
                call!("script", || format!("script{}:{}", script_vals, script.iter().map(|&j| digits[j % 10]).collect::<String>()), Script { vals: vs, pos: 0 });
                for slot in script.iter_mut() {
                    *slot += 1;
                    if *slot < script_vals {
                        break;
                    }
                    *slot = 0;
                }
            }
            // seeded streams (a different stream for every input and assignment)
            for k in 0..std_seeds {
                let sd = base_seed.wrapping_mul(0x9E37_79B9_7F4A_7C15).wrapping_add(case_no * 1_000_003 + (map as u64) * 7919 + k);
                call!("std", || format!("std:{sd}"), StdRng::seed_from_u64(sd));
            }
        }
        observed += seen.len() as u64;
        let mut outs: Vec<(Out, (String, usize))> = seen.into_iter().collect();
        outs.sort();
        for ((nodes, dn, sn, panic), (rng, map)) in outs {
            if printed >= max_obs {
                break;
            }
            printed += 1;
            let mut o = json!({"obs": true, "case": case_no, "peers": peers, "live": live, "dead": dead, "seeds": seeds,
                "nodes": nodes, "dead_out": dn, "seed_out": sn, "rng": rng, "map": map});
            if let Some(p) = panic {
                o["panic"] = json!(p);
            }
            writeln!(out, "{}", o).unwrap();
        }
    });
    writeln!(out, "{}", json!({"summary": true, "cases": cases, "calls": calls, "observed": observed, "printed": printed,
        "panics": panics, "maps": maps, "scripts_per_map": nscripts, "script_values": vals.iter().map(|v| format!("{v:#x}")).collect::<Vec<_>>(),
        "calls_by_rng": rng_kinds})).unwrap();
}
