use vharness::codec::{self, WNodeDigest};
use vharness::world::{wid, World, WorldCfg};
fn main() {
    vharness::world::install_quiet_panic_hook();
    let mut w = World::new(WorldCfg { nodes: vec!["n1".into()], grace: 1000, ..Default::default() });
    for i in 0..60 {
        w.api("n1", "Set", &format!("key{i}"), &"a".repeat(100));
    }
    let dig = codec::encode_digest(&[WNodeDigest { id: wid("zz"), hb: 0, gc: 0, max: 0 }]);
    for mtu in [65000usize, 16384, 8000, 3000, 1000, 500] {
        let r = std::panic::catch_unwind(std::panic::AssertUnwindSafe(|| {
            let _g = w.rt.enter();
            w.nodes.get("n1").unwrap().cc.verif_compute_delta(&dig, mtu)
        }));
        match r {
            Ok(Ok(b)) => { let (ops, bl, _) = codec::decode_delta(&b).unwrap(); println!("mtu {mtu}: ok len {} ops {} blocks {}", b.len(), ops.len(), bl.len()); }
            Ok(Err(e)) => println!("mtu {mtu}: err {e}"),
            Err(e) => println!("mtu {mtu}: PANIC {}", vharness::world::panic_text(e)),
        }
    }
}
