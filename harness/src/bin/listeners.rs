//! C15 binding: each case of Listeners.tla (subscriptions with the fate of their handles, a key,
//! a kind of key event) is realised on a real node through `subscribe_event`, local writes on
//! `self_node_state()` and replicated writes delivered as crafted ACKs; the recorded callback
//! invocations of the event step are compared with the specification's.
use chitchat::ListenerHandle;
use serde_json::{json, Value};
use std::io::Write;
use std::panic::{catch_unwind, AssertUnwindSafe};
use std::sync::{Arc, Mutex};
use vharness::codec::{self, Framing, WMsg, WNodeDigest, WOp};
use vharness::world::{panic_text, wid, World, WorldCfg};

/// ASCII placeholders of the model -> real characters (E: 2-byte, G: 4-byte).
fn real(s: &str) -> String {
    s.chars().map(|c| match c { 'E' => 'é', 'G' => '𝄞', x => x }).collect()
}
fn model(s: &str) -> String {
    s.chars().map(|c| match c { 'é' => 'E', '𝄞' => 'G', x => x }).collect()
}
fn chars(s: &str) -> Vec<Value> {
    s.chars().map(|c| json!(c.to_string())).collect()
}

fn deliver(w: &mut World, msg: &WMsg) -> Option<String> {
    let bytes = codec::encode(msg, &Framing::Like { threshold: 16384 });
    let (_d, _r, p) = w.deliver("n1", &bytes);
    p
}
/// A resetting delta about n2: from version 0 with a GC watermark above the copy's frontier.
fn repl_reset(w: &mut World, gc: u64, key: &str, val: &str, ver: u64) -> Option<String> {
    deliver(w, &WMsg::Ack { ops: vec![WOp::Node { id: wid("n2"), gc, from: 0 }, WOp::KV { key: key.to_string(), val: val.to_string(), ver, st: 0 }] })
}
fn repl(w: &mut World, key: &str, val: &str, ver: u64, st: u8) -> Option<String> {
    deliver(w, &WMsg::Ack { ops: vec![WOp::Node { id: wid("n2"), gc: 0, from: 0 }, WOp::KV { key: key.to_string(), val: val.to_string(), ver, st }] })
}


/// Realises one case on a real node; returns the callback invocations of the event step and a
/// caught panic, if any.
fn run_case(case: &Value) -> (Vec<Value>, Option<String>) {
        let mut w = World::new(WorldCfg { nodes: vec!["n1".into()], grace: 1000, ..Default::default() });
    let log: Arc<Mutex<Vec<Value>>> = Arc::new(Mutex::new(Vec::new()));
    let subs = case["subs"].as_array().cloned().unwrap_or_default();
    let mut handles: Vec<Option<ListenerHandle>> = Vec::new();
    let ops = case.get("ops").and_then(|x| x.as_array()).cloned().unwrap_or_default();
    if !ops.is_empty() {
        // churn family: subscriptions come and go in the given order
        for op in &ops {
            match op["o"].as_str().unwrap_or("") {
                "Sub" => {
                    let i = handles.len();
                    let prefix = real(op["p"].as_str().unwrap_or(""));
                    let lg = log.clone();
                    let h = w.nodes.get("n1").unwrap().cc.subscribe_event(prefix, move |ev| {
                        lg.lock().unwrap().push(json!({"sub": i + 1, "key": model(ev.key), "value": ev.value, "node": ev.node.node_id}));
                    });
                    handles.push(Some(h));
                }
                "Drop" => { let i = op["i"].as_u64().unwrap_or(1) as usize - 1; drop(handles[i].take()); }
                "Forever" => { let i = op["i"].as_u64().unwrap_or(1) as usize - 1; if let Some(h) = handles[i].take() { h.forever(); } }
                _ => {}
            }
        }
    } else {
    for (i, s) in subs.iter().enumerate() {
        let prefix = real(s["prefix"].as_str().unwrap_or(""));
        let lg = log.clone();
        let h = w.nodes.get("n1").unwrap().cc.subscribe_event(prefix, move |ev| {
            lg.lock().unwrap().push(json!({"sub": i + 1, "key": model(ev.key), "value": ev.value, "node": ev.node.node_id}));
        });
        handles.push(Some(h));
    }
    for (i, s) in subs.iter().enumerate() {
        match s["fate"].as_str().unwrap_or("held") {
            "dropped" => drop(handles[i].take()),
            "forever" => handles[i].take().unwrap().forever(),
            _ => {}
        }
    }
    }
    let key = real(case["key"].as_str().unwrap_or(""));
    let kind = case["kind"].as_str().unwrap_or("");
    let mut panic: Option<String> = None;
    // the remote owner must be known before replicated writes can be applied
    deliver(&mut w, &WMsg::Syn { cluster: "c".into(), digest: vec![WNodeDigest { id: wid("n2"), hb: 1, gc: 0, max: 0 }] });
    // preparation (its calls are not part of the event)
    let pre = catch_unwind(AssertUnwindSafe(|| match kind {
        "LocalSetChange" => w.api("n1", "Set", &key, "v0"),
        "LocalSetSame" | "LocalDelete" | "LocalDeleteTtl" | "LocalSetTtlSameValue" => w.api("n1", "Set", &key, "v1"),
        "LocalSetEmptyAfterDelete" => w.api("n1", "Set", &key, "v1").or(w.api("n1", "Delete", &key, "")),
        "ReplSameValueNewer" => repl(&mut w, &key, "v1", 1, 0),
        "LocalSetAfterDelete" => w.api("n1", "Set", &key, "v1").or(w.api("n1", "Delete", &key, "")),
        "ReplTombstone" => repl(&mut w, &key, "v0", 1, 0),
        "ReplStale" => repl(&mut w, &key, "v0", 2, 0),
        "ReplResetCarried" | "ReplResetTombstone" => repl(&mut w, &key, "v0", 1, 0),
        "ReplAfterReset" => repl(&mut w, &key, "v0", 1, 0).or(repl_reset(&mut w, 5, "zz-other", "w", 6)),
        _ => None,
    }));
    let pre_panic = match pre { Ok(p) => p, Err(e) => Some(panic_text(e)) };
    log.lock().unwrap().clear();
    let ev = catch_unwind(AssertUnwindSafe(|| match kind {
        "LocalSetNew" | "LocalSetChange" | "LocalSetSame" | "LocalSetAfterDelete" => w.api("n1", "Set", &key, "v1"),
        "LocalSetTtlNew" | "LocalSetTtlSameValue" => w.api("n1", "SetTtl", &key, "v1"),
        "LocalSetEmptyAfterDelete" => w.api("n1", "Set", &key, ""),
        "ReplSameValueNewer" => repl(&mut w, &key, "v1", 2, 0),
        "LocalDelete" => w.api("n1", "Delete", &key, ""),
        "LocalDeleteTtl" => w.api("n1", "DeleteTtl", &key, ""),
        "ReplNewerSet" => repl(&mut w, &key, "v1", 1, 0),
        "ReplNewerTtl" => repl(&mut w, &key, "v1", 1, 2),
        "ReplTombstone" => repl(&mut w, &key, "", 2, 1),
        "ReplStale" => repl(&mut w, &key, "v1", 1, 0),
        "ReplResetCarried" => repl_reset(&mut w, 5, &key, "v1", 6),
        "ReplResetTombstone" => deliver(&mut w, &WMsg::Ack { ops: vec![WOp::Node { id: wid("n2"), gc: 5, from: 0 }, WOp::KV { key: key.to_string(), val: String::new(), ver: 6, st: 1 }] }),
        "ReplAfterReset" => deliver(&mut w, &WMsg::Ack { ops: vec![WOp::Node { id: wid("n2"), gc: 5, from: 6 }, WOp::KV { key: key.to_string(), val: "v1".to_string(), ver: 7, st: 0 }] }),
        _ => Some(format!("unknown kind {kind}")),
    }));
    match ev { Ok(p) => { if p.is_some() { panic = p; } } Err(e) => panic = Some(panic_text(e)) }
    if panic.is_none() { panic = pre_panic; }
    let observed: Vec<Value> = log.lock().unwrap().clone();
    (observed, panic)
}

fn main() {
    vharness::world::install_quiet_panic_hook();
    let out = std::io::stdout();
    let mut out = out.lock();
    if std::env::args().nth(1).as_deref() == Some("random") {
        // up to 8 subscriptions with random prefixes (<= 3 characters over a, b, é, 𝄞), random fates,
        // random key and kind of event: every record is emitted for the TLA+ judge
        use rand::prelude::*;
        let seed: u64 = std::env::args().nth(2).and_then(|s| s.parse().ok()).unwrap_or(1);
        let n: u64 = std::env::args().nth(3).and_then(|s| s.parse().ok()).unwrap_or(500);
        let mut rng = StdRng::seed_from_u64(seed);
        let alphabet = ['a', 'b', 'E', 'G'];
        let kinds = ["LocalSetNew", "LocalSetChange", "LocalSetSame", "LocalSetAfterDelete", "LocalSetTtlNew", "LocalDelete", "LocalDeleteTtl", "ReplNewerSet", "ReplNewerTtl", "ReplTombstone", "ReplStale", "LocalSetEmptyAfterDelete", "LocalSetTtlSameValue", "ReplSameValueNewer", "ReplResetCarried", "ReplAfterReset", "ReplResetTombstone"];
        let fates = ["held", "dropped", "forever"];
        let word = |rng: &mut StdRng, maxlen: usize| -> String { let l = rng.random_range(0..=maxlen); (0..l).map(|_| alphabet[rng.random_range(0..4)]).collect() };
        for _ in 0..n {
            let key = word(&mut rng, 3);
            let nsubs = rng.random_range(1..=8);
            let subs: Vec<Value> = (0..nsubs).map(|_| {
                // half of the prefixes are derived from the key so that matches are frequent
                let p = if rng.random_bool(0.5) { let cut = rng.random_range(0..=key.chars().count()); key.chars().take(cut).collect::<String>() } else { word(&mut rng, 3) };
                json!({"prefix": p, "fate": fates[rng.random_range(0..3)]})
            }).collect();
            let case = json!({"subs": subs, "key": key, "kind": kinds[rng.random_range(0..kinds.len())], "expect": []});
            let (observed, panic) = run_case(&case);
            let subs_c: Vec<Value> = case["subs"].as_array().unwrap().iter().map(|s| json!({"chars": chars(s["prefix"].as_str().unwrap_or("")), "fate": s["fate"]})).collect();
            writeln!(out, "{}", json!({"record": true, "case": case, "subs": subs_c, "keychars": chars(case["key"].as_str().unwrap_or("")),
                "kind": case["kind"], "observed": observed, "panic": panic.is_some(), "panic_text": panic})).unwrap();
        }
        return;
    }
    let max_report: u64 = std::env::args().nth(1).and_then(|s| s.parse().ok()).unwrap_or(30);
    let (mut total, mut bad, mut panics, mut firing) = (0u64, 0u64, 0u64, 0u64);
    let stdin = std::io::stdin();
    vharness::read_behaviours(stdin.lock(), |case| {
        total += 1;
        let (observed, panic) = run_case(&case);
        let subs = case["subs"].as_array().cloned().unwrap_or_default();
        let kind = case["kind"].as_str().unwrap_or("");
        let mut exp: Vec<String> = case["expect"].as_array().map(|a| a.iter().map(|x| x.to_string()).collect()).unwrap_or_default();
        let mut obs: Vec<String> = observed.iter().map(|x| x.to_string()).collect();
        exp.sort();
        obs.sort();
        if !exp.is_empty() { firing += 1; }
        if panic.is_some() { panics += 1; }
        if exp != obs || panic.is_some() {
            bad += 1;
            if bad <= max_report {
                let subs_c: Vec<Value> = subs.iter().map(|s| json!({"chars": chars(s["prefix"].as_str().unwrap_or("")), "fate": s["fate"]})).collect();
                writeln!(out, "{}", json!({"mismatch": true, "case": case, "subs": subs_c, "keychars": chars(case["key"].as_str().unwrap_or("")),
                    "kind": kind, "observed": observed, "panic": panic.is_some(), "panic_text": panic})).unwrap();
            }
        }
    });
    writeln!(out, "{}", json!({"summary": true, "cases": total, "mismatches": bad, "panics": panics, "firing": firing})).unwrap();
}
