//! Cluster-level binding (Gossip.tla): replays TLC behaviours on real nodes and compares projected
//! states; on divergence (or on request) emits the recorded real trace for TLC trace validation /
//! observation.
use serde_json::{json, Value};
use std::io::Write;
use rand::prelude::*;
use vharness::exec::{same, strip_nulls, Run};
use vharness::world::WorldCfg;

fn main() {
    vharness::world::install_quiet_panic_hook();
    let args: Vec<String> = std::env::args().collect();
    let mode = args.get(1).map(|s| s.as_str()).unwrap_or("replay");
    let cfgv: Value = serde_json::from_str(args.get(2).map(|s| s.as_str()).unwrap_or("{}")).unwrap();
    let wc = WorldCfg::from_json(&cfgv);
    let strip_hb = cfgv.get("strip_hb").and_then(|x| x.as_bool()).unwrap_or(false);
    let max_report = cfgv.get("max_report").and_then(|x| x.as_u64()).unwrap_or(50);
    let trace_all = cfgv.get("trace_all").and_then(|x| x.as_bool()).unwrap_or(false);
    let out = std::io::stdout();
    let mut out = out.lock();
    match mode {
        "replay" => {
            let mut total = 0u64;
            let mut bad = 0u64;
            let mut panics = 0u64;
            let mut steps_total = 0u64;
            // divergent replays are kept (up to a cap) and an even sample of `max_report` is written at the
            // end, so that the reported ones are spread over the whole export and not only its beginning
            let mut kept: Vec<Value> = Vec::new();
            let stdin = std::io::stdin();
            vharness::read_behaviours(stdin.lock(), |b| {
                total += 1;
                let steps = b["steps"].as_array().cloned().unwrap_or_default();
                steps_total += steps.len() as u64;
                let mut run = Run::new(wc.clone());
                run.run_all(&steps);
                let views = run.views();
                let panicked = run.events.iter().any(|e| e.get("panic").is_some());
                if panicked {
                    panics += 1;
                }
                // last step's produced message must match the prediction too
                let last_out_ok = match steps.last() {
                    Some(st) => {
                        let pred = st.get("out").cloned().unwrap_or(Value::Null);
                        let real = run.events.last().map(|e| e["out"].clone()).unwrap_or(Value::Null);
                        let inject = st.get("a").and_then(|x| x.as_str()) == Some("Inject");
                        (pred.is_null() && (real.is_null() || inject)) || same(&pred, &real, strip_hb)
                    }
                    None => true,
                };
                let ok = same(&views, &b["expect"]["nodes"], strip_hb) && last_out_ok && !panicked;
                if !ok {
                    bad += 1;
                }
                if trace_all {
                    writeln!(out, "{}", json!({"diverged": !ok, "steps": steps, "expect": b["expect"],
                        "real_views": views, "events": run.events, "last_out_ok": last_out_ok})).unwrap();
                } else if !ok && kept.len() < 4000 {
                    kept.push(json!({"diverged": true, "steps": steps, "expect": b["expect"],
                        "real_views": views, "events": run.events, "last_out_ok": last_out_ok}));
                }
            });
            let want = (max_report as usize).min(kept.len());
            for j in 0..want {
                let idx = if want <= 1 { 0 } else { j * (kept.len() - 1) / (want - 1) };
                writeln!(out, "{}", kept[idx]).unwrap();
            }
            writeln!(out, "{}", json!({"summary": true, "behaviours": total, "steps": steps_total,
                "diverged": bad, "panics": panics})).unwrap();
        }
        "drive" => drive(&cfgv, wc, &mut out),
        "detector" => detector(&cfgv, wc, &mut out),
        "fuzz" => fuzz(&cfgv, wc, &mut out),
        "trace" => {
            // executes given behaviours and writes the recorded real trace (Reset-separated)
            let stdin = std::io::stdin();
            let mut t = 0u64;
            vharness::read_behaviours(stdin.lock(), |b| {
                let steps = b["steps"].as_array().cloned().unwrap_or_default();
                let mut run = Run::new(wc.clone());
                writeln!(out, "{}", json!({"a": "Reset", "trace": t})).unwrap();
                t += 1;
                run.run_all(&steps);
                for (i, ev) in run.events.iter().enumerate() {
                    let mut ev = strip_nulls(ev);
                    ev["i"] = json!(i);
                    let a = ev["a"].as_str().unwrap_or("");
                    if a != "Nop" && a != "Lose" && ev.get("skipped").is_none() {
                        writeln!(out, "{}", ev).unwrap();
                    }
                }
            });
        }
        _ => {
            eprintln!("usage: gossip replay|drive '<cfg json>'");
            std::process::exit(2);
        }
    }
}

fn strs(v: &Value, k: &str) -> Vec<String> {
    v.get(k).and_then(|x| x.as_array()).map(|a| a.iter().map(|x| x.as_str().unwrap().to_string()).collect()).unwrap_or_default()
}
fn num(v: &Value, k: &str, d: u64) -> u64 {
    v.get(k).and_then(|x| x.as_u64()).unwrap_or(d)
}

/// Seeded random cluster scenarios on real nodes. Each trace: a chaos phase (owner writes, deletes,
/// TTLs, handshake steps with loss / duplication / reordering, pairwise partitions, GC passes,
/// clock advances around the grace period, late joiners, liveness evaluations).
fn drive(cfgv: &Value, wc: WorldCfg, out: &mut impl Write) {
    let seed = num(cfgv, "seed", 1);
    let ntraces = num(cfgv, "traces", 10);
    let len = num(cfgv, "len", 60) as usize;
    let keys = strs(cfgv, "keys");
    let writers = { let w = strs(cfgv, "writers"); if w.is_empty() { wc.nodes.clone() } else { w } };
    let advances: Vec<u64> = cfgv.get("advances").and_then(|x| x.as_array()).map(|a| a.iter().map(|x| x.as_u64().unwrap()).collect()).unwrap_or(vec![1]);
    let w_live = num(cfgv, "w_live", 0);
    let w_hb = num(cfgv, "w_hb", 0);
    let w_ttl = num(cfgv, "w_ttl", 1);
    let nvals = num(cfgv, "nvals", 0); // 0: fresh value per write; else values v1..vN
    let mut rng = StdRng::seed_from_u64(seed);
    // optional dump of every produced datagram (hex, one per line) for the wire-format check
    let mut hex_out = cfgv.get("hex_out").and_then(|x| x.as_str()).map(|p| std::io::BufWriter::new(std::fs::File::create(p).expect("hex_out")));
    // optional prefixes (amplification of a divergent behaviour): each trace first replays one
    let prefixes: Vec<Vec<Value>> = match cfgv.get("prefix_file").and_then(|x| x.as_str()) {
        Some(p) => serde_json::from_str(&std::fs::read_to_string(p).expect("prefix file")).expect("prefix json"),
        None => Vec::new(),
    };
    let w_sync = num(cfgv, "w_sync", 0);
    let w_catchup = num(cfgv, "w_catchup", 0);
    let w_cut = num(cfgv, "w_cut", 0);
    let w_del = num(cfgv, "w_del", 3);
    let cu_garbage = cfgv.get("cu_garbage").and_then(|x| x.as_bool()).unwrap_or(false);
    for t in 0..ntraces {
        let mut run = Run::new(wc.clone());
        writeln!(out, "{}", json!({"a": "Reset", "trace": t})).unwrap();
        let mut steps: Vec<Value> = Vec::new();
        let mut inflight: Vec<usize> = Vec::new();
        let mut delivered: Vec<usize> = Vec::new();
        if !prefixes.is_empty() {
            let pre = &prefixes[(t as usize) % prefixes.len()];
            for st in pre {
                let mut st = st.clone();
                // resolve content-addressed deliveries to indices once, so later steps can append
                if st.get("a").and_then(|x| x.as_str()) == Some("Process") && st.get("m").is_none() {
                    let mut tmp = steps.clone();
                    tmp.push(st.clone());
                    let i = tmp.len() - 1;
                    run.step(&tmp, i);
                    if let Some(m) = run.events[i].get("m") { st["m"] = m.clone(); }
                    steps.push(st);
                } else {
                    steps.push(st);
                    let i = steps.len() - 1;
                    run.step(&steps, i);
                }
                let i = steps.len() - 1;
                if run.made[i].is_some() { inflight.push(i); }
                let mut ev = strip_nulls(&run.events[i]);
                ev["i"] = json!(i);
                let a = ev["a"].as_str().unwrap_or("");
                if a != "Nop" && a != "Lose" && ev.get("skipped").is_none() {
                    writeln!(out, "{}", ev).unwrap();
                }
            }
        }
        let base = steps.len();
        let mut vc = 0u64;
        let nodes = wc.nodes.clone();
        // restart: `old` stops for good when `new` (same node id and address, next generation) starts
        let restart: Option<(String, String)> = cfgv.get("restart").and_then(|x| x.as_array()).map(|a| (a[0].as_str().unwrap().to_string(), a[1].as_str().unwrap().to_string()));
        // a late joiner stays silent for the first part of the trace
        let late: Option<String> = if let Some((_, nw)) = &restart { Some(nw.clone()) } else if nodes.len() > 2 && rng.random_bool(0.5) { Some(nodes[nodes.len() - 1].clone()) } else { None };
        let late_until = if prefixes.is_empty() { rng.random_range(len / 3..(2 * len / 3).max(len / 3 + 1)) } else { 0 };
        // a pairwise partition during a window
        let cut: Option<(String, String)> = if nodes.len() > 1 && rng.random_bool(0.5) {
            let a = nodes.choose(&mut rng).unwrap().clone();
            let b = nodes.choose(&mut rng).unwrap().clone();
            if a != b { Some((a, b)) } else { None }
        } else { None };
        let cut_from = base + rng.random_range(0..len / 2 + 1);
        let cut_to = cut_from + rng.random_range(0..len / 2 + 1);
        let mut cuts: std::collections::HashSet<(String, String)> = Default::default();
        for i in base..base + len {
            let active: Vec<String> = nodes.iter().filter(|n| !(late.as_ref() == Some(n) && i < late_until))
                .filter(|n| !(restart.as_ref().map(|r| &r.0) == Some(n) && i >= late_until)).cloned().collect();
            if w_cut > 0 && nodes.len() > 1 && rng.random_range(0..100) < w_cut {
                let a = nodes.choose(&mut rng).unwrap().clone();
                let b = nodes.choose(&mut rng).unwrap().clone();
                if a != b {
                    let key = if a < b { (a, b) } else { (b, a) };
                    if !cuts.remove(&key) { cuts.insert(key); }
                }
            }
            let cuts_now = cuts.clone();
            let is_cut = |a: &str, b: &str| -> bool {
                let key = if a < b { (a.to_string(), b.to_string()) } else { (b.to_string(), a.to_string()) };
                if cuts_now.contains(&key) { return true; }
                if let Some((x, y)) = &cut { i >= cut_from && i < cut_to && ((a == x && b == y) || (a == y && b == x)) } else { false }
            };
            let n = active.choose(&mut rng).unwrap().clone();
            let r = rng.random_range(0..(100 + w_live + w_hb + w_sync + w_catchup));
            let st: Value = if r < 22 {
                let w = writers.iter().filter(|w| active.contains(w)).cloned().collect::<Vec<_>>();
                if w.is_empty() { json!({"a": "Nop"}) } else {
                let n = w.choose(&mut rng).unwrap().clone();
                let k = keys.choose(&mut rng).unwrap().clone();
                vc += 1;
                let v = if nvals > 0 { format!("v{}", rng.random_range(1..=nvals)) } else { format!("v{vc}") };
                let pick = rng.random_range(0..(5 + w_del + 2 * w_ttl));
                if pick < 5 { json!({"a": "Set", "n": n, "k": k, "v": v}) }
                else if pick < 5 + w_del { json!({"a": "Delete", "n": n, "k": k, "v": ""}) }
                else if pick < 5 + w_del + w_ttl { json!({"a": "SetTtl", "n": n, "k": k, "v": v}) }
                else { json!({"a": "DeleteTtl", "n": n, "k": k, "v": ""}) } }
            } else if r < 42 {
                let p = active.choose(&mut rng).unwrap().clone();
                if p == n { json!({"a": "Nop"}) } else { json!({"a": "CreateSyn", "n": n, "to": p}) }
            } else if r < 80 {
                // deliver an in-flight message (sometimes a duplicate of an already delivered one)
                let pool: &Vec<usize> = if !delivered.is_empty() && rng.random_range(0..10) == 0 { &delivered } else { &inflight };
                if pool.is_empty() { json!({"a": "Nop"}) } else {
                    let idx = rng.random_range(0..pool.len());
                    let m = pool[idx];
                    let (src, dst) = { let rm = run.made[m].as_ref().unwrap(); (rm.src.clone(), rm.dst.clone()) };
                    let from_inflight = std::ptr::eq(pool, &inflight);
                    if from_inflight { inflight.remove(idx); }
                    // delivery is by address: after a restart the new incarnation receives the old one's mail
                    let dst = match &restart { Some((old, nw)) if &dst == old && i >= late_until => nw.clone(), _ => dst };
                    if is_cut(&src, &dst) || !active.contains(&dst) || rng.random_range(0..12) == 0 {
                        json!({"a": "Lose", "m": m})
                    } else {
                        if from_inflight { delivered.push(m); if delivered.len() > 6 { delivered.remove(0); } }
                        json!({"a": "Process", "n": dst, "m": m})
                    }
                }
            } else if r < 88 {
                json!({"a": "Advance", "d": advances.choose(&mut rng).unwrap()})
            } else if r < 100 {
                json!({"a": "Gc", "n": n})
            } else if r < 100 + w_live {
                json!({"a": "Liveness", "n": n})
            } else if r < 100 + w_live + w_hb {
                json!({"a": "Heartbeat", "n": n})
            } else if r >= 100 + w_live + w_hb + w_sync {
                // external catch-up: a snapshot of some peer's copy of x, sometimes with
                // inconsistent max version / watermark, sometimes arbitrary entries
                let mut x = nodes.choose(&mut rng).unwrap().clone();
                let p = active.choose(&mut rng).unwrap().clone();
                if cu_garbage && rng.random_bool(0.5) {
                    // prefer a member whose copy at the receiver already has a GC watermark
                    let nv = run.world.project(&n);
                    let cands: Vec<String> = nv["ns"].as_object().map(|o| o.iter()
                        .filter(|(k, c)| k.as_str() != n && c["gc"].as_u64().unwrap_or(0) > 0)
                        .map(|(k, _)| k.clone()).collect()).unwrap_or_default();
                    if let Some(c) = cands.choose(&mut rng) { x = c.clone(); }
                }
                if x == n { json!({"a": "Nop"}) } else {
                    let pv = run.world.project(&p);
                    let c = pv["ns"].get(&x).cloned().unwrap_or(json!({"kv": {}, "max": 0, "gc": 0}));
                    let mut kvs = serde_json::Map::new();
                    if let Some(o) = c["kv"].as_object() {
                        for (k, e) in o {
                            if !cu_garbage || rng.random_range(0..8) != 0 {
                                kvs.insert(k.clone(), json!({"val": e["val"], "ver": e["ver"], "st": e["st"]}));
                            }
                        }
                    }
                    let mut max = c["max"].as_u64().unwrap_or(0);
                    let mut gc = c["gc"].as_u64().unwrap_or(0);
                    match if cu_garbage { rng.random_range(0..6) } else { 5 } {
                        0 => { max = rng.random_range(0..max + 3); }
                        1 => { gc = rng.random_range(0..max + 3); }
                        2 => {
                            let used: Vec<u64> = kvs.values().map(|e| e["ver"].as_u64().unwrap_or(0)).collect();
                            // any unused version: above the supplied max version, or anywhere below it
                            // (also at or below the receiving copy's watermark)
                            let ver = if rng.random_bool(0.5) { max + 1 + rng.random_range(0..2) } else { rng.random_range(1..max + 2) };
                            if !used.contains(&ver) {
                                let k = keys.choose(&mut rng).unwrap().clone();
                                vc += 1;
                                let stn = ["Set", "Del", "Ttl"][rng.random_range(0..3)];
                                kvs.insert(k, json!({"val": format!("c{vc}"), "ver": ver, "st": stn}));
                                if rng.random_bool(0.5) { max = ver; }
                            }
                        }
                        3 => {
                            // an existing entry with another status (a tombstone or TTL mark at any version)
                            let ks: Vec<String> = kvs.keys().cloned().collect();
                            if let Some(k) = ks.choose(&mut rng) {
                                let stn = ["Set", "Del", "Ttl"][rng.random_range(0..3)];
                                kvs[k]["st"] = json!(stn);
                                if stn != "Del" && kvs[k]["val"] == json!("") { vc += 1; kvs[k]["val"] = json!(format!("c{vc}")); }
                            }
                        }
                        _ => {}
                    }
                    // a deleted entry carries the empty value (as every real tombstone does)
                    for (_, e) in kvs.iter_mut() { if e["st"] == "Del" { e["val"] = json!(""); } }
                    json!({"a": "Catchup", "n": n, "x": x, "kvs": kvs, "max": max, "gc": gc})
                }
            } else {
                // start a handshake and let it run to completion right away (3 deliveries follow
                // through the in-flight pool with high probability because it is the newest entry)
                let p = active.choose(&mut rng).unwrap().clone();
                if p == n { json!({"a": "Nop"}) } else { json!({"a": "CreateSyn", "n": n, "to": p}) }
            };
            steps.push(st);
            run.step(&steps, i);
            if run.made[i].is_some() { inflight.push(i); }
            if let (Some(h), Some(m)) = (hex_out.as_mut(), run.made[i].as_ref()) {
                let hx: String = m.bytes.iter().map(|b| format!("{b:02x}")).collect();
                writeln!(h, "{hx}").unwrap();
            }
            let mut ev = strip_nulls(&run.events[i]);
            ev["i"] = json!(i);
            let a = ev["a"].as_str().unwrap_or("");
            if a != "Nop" && a != "Lose" && ev.get("skipped").is_none() {
                writeln!(out, "{}", ev).unwrap();
            }
        }
        // fair phase (C01): writes have stopped, every link is healed, nothing is lost; `fair_rounds`
        // rounds of complete handshakes between all ordered pairs in a random order
        let fair_rounds = num(cfgv, "fair_rounds", 0);
        if fair_rounds > 0 {
            for _ in 0..fair_rounds {
                let mut pairs: Vec<(String, String)> = Vec::new();
                for a in &nodes { for b in &nodes { if a != b { pairs.push((a.clone(), b.clone())); } } }
                pairs.shuffle(&mut rng);
                for (a, b) in pairs {
                    let mut last_m = 0usize;
                    for k in 1..=4u64 {
                        let st = if k == 1 { json!({"a": "CreateSyn", "n": a, "to": b}) }
                                 else { let dst = if k % 2 == 0 { &b } else { &a }; json!({"a": "Process", "n": dst, "m": last_m}) };
                        steps.push(st);
                        let i = steps.len() - 1;
                        run.step(&steps, i);
                        last_m = i;
                        let mut ev = strip_nulls(&run.events[i]);
                        ev["i"] = json!(i);
                        ev["hs"] = json!({"k": k, "a": a, "b": b});
                        writeln!(out, "{}", ev).unwrap();
                    }
                }
                if num(cfgv, "fair_gc", 1) == 1 {
                    for n in &nodes {
                        for what in ["Heartbeat", "Gc"] {
                            steps.push(json!({"a": what, "n": n}));
                            let i = steps.len() - 1;
                            run.step(&steps, i);
                            let mut ev = strip_nulls(&run.events[i]);
                            ev["i"] = json!(i);
                            writeln!(out, "{}", ev).unwrap();
                        }
                    }
                }
            }
            writeln!(out, "{}", json!({"a": "FairEnd", "n": "", "rounds": fair_rounds, "clock": run.world.now_ticks()})).unwrap();
        }
    }
}

/// Heartbeat-arrival histories for one observed member "x" on observer "n1": phases of steady
/// arrivals, bursts, long silences, and stale / equal / lower / duplicated heartbeats relayed by
/// third parties, with evaluations at random times (C10, C11).
fn detector(cfgv: &Value, wc: WorldCfg, out: &mut impl Write) {
    let seed = num(cfgv, "seed", 1);
    let ntraces = num(cfgv, "traces", 10);
    let arrivals = num(cfgv, "arrivals", 100) as usize;
    let max_interval = wc.fd.max_interval.max(1);
    let mut rng = StdRng::seed_from_u64(seed);
    for t in 0..ntraces {
        let mut run = Run::new(wc.clone());
        writeln!(out, "{}", json!({"a": "Reset", "trace": t})).unwrap();
        let mut steps: Vec<Value> = Vec::new();
        let mut hb: u64 = rng.random_range(1..5);
        let mut n_arr = 0usize;
        let emit = |run: &mut Run, steps: &mut Vec<Value>, st: Value, out: &mut dyn Write| {
            steps.push(st);
            let i = steps.len() - 1;
            run.step(steps, i);
            let mut ev = strip_nulls(&run.events[i]);
            ev["i"] = json!(i);
            ev.as_object_mut().unwrap().remove("out");
            ev.as_object_mut().unwrap().remove("outlen");
            writeln!(out, "{}", ev).unwrap();
        };
        while n_arr < arrivals {
            // one phase
            // with a short dead-node grace period a seventh kind of phase lets the member die and be REMOVED,
            // then replays stale heartbeats (lower / equal / slowly increasing but still old) at the observer
            let small_grace = wc.fd.dead_grace < 10_000;
            let phase = rng.random_range(0..if small_grace { 7 } else { 6 });
            let plen = rng.random_range(1..12usize);
            if phase == 6 {
                let bound = (wc.fd.phi * (wc.fd.max_interval.max(wc.fd.initial) as f64)).ceil() as u64 + 1;
                emit(&mut run, &mut steps, json!({"a": "Advance", "d": bound}), out);
                emit(&mut run, &mut steps, json!({"a": "Liveness", "n": "n1"}), out);
                emit(&mut run, &mut steps, json!({"a": "Advance", "d": wc.fd.dead_grace + rng.random_range(0..3)}), out);
                emit(&mut run, &mut steps, json!({"a": "Liveness", "n": "n1"}), out);
                let mut stale = hb.saturating_sub(rng.random_range(0..6)).max(1);
                for _ in 0..plen {
                    if n_arr >= arrivals { break; }
                    emit(&mut run, &mut steps, json!({"a": "Advance", "d": rng.random_range(0..=max_interval)}), out);
                    let msg = json!({"t": "Syn", "src": "r", "dst": "n1", "cluster": "c", "digest": {"x": {"hb": stale, "gc": 0, "max": 0}}});
                    emit(&mut run, &mut steps, json!({"a": "Inject", "n": "n1", "msg": msg}), out);
                    n_arr += 1;
                    if rng.random_range(0..2) == 0 { emit(&mut run, &mut steps, json!({"a": "Liveness", "n": "n1"}), out); }
                    if stale < hb && rng.random_range(0..2) == 0 { stale += 1; }
                }
                continue;
            }
            let lo = rng.random_range(0..=max_interval);
            let hi = rng.random_range(lo..=max_interval + 1);
            for _ in 0..plen {
                if n_arr >= arrivals { break; }
                let gap = match phase {
                    0 | 1 => rng.random_range(lo..=hi),                // steady within [lo, hi]
                    2 => 0,                                             // burst
                    3 => rng.random_range(max_interval..max_interval * 4 + 2), // silence
                    _ => rng.random_range(0..=max_interval + 2),
                };
                if gap > 0 { emit(&mut run, &mut steps, json!({"a": "Advance", "d": gap}), out); }
                if rng.random_range(0..3) == 0 { emit(&mut run, &mut steps, json!({"a": "Liveness", "n": "n1"}), out); }
                let h = match rng.random_range(0..10) {
                    0 => hb,                                   // equal (duplicate / relayed)
                    1 => hb.saturating_sub(rng.random_range(1..4)).max(1), // lower (stale relay)
                    2 => { hb += rng.random_range(2..6); hb }  // jump
                    _ => { hb += 1; hb }
                };
                let msg = json!({"t": "Syn", "src": "r", "dst": "n1", "cluster": "c", "digest": {"x": {"hb": h, "gc": 0, "max": 0}}});
                emit(&mut run, &mut steps, json!({"a": "Inject", "n": "n1", "msg": msg}), out);
                n_arr += 1;
                if rng.random_range(0..2) == 0 { emit(&mut run, &mut steps, json!({"a": "Liveness", "n": "n1"}), out); }
            }
        }
        // final silence with evaluations around the completeness deadline
        for _ in 0..4 {
            emit(&mut run, &mut steps, json!({"a": "Advance", "d": rng.random_range(1..=max_interval * 2 + 1)}), out);
            emit(&mut run, &mut steps, json!({"a": "Liveness", "n": "n1"}), out);
        }
        // ... and once certainly beyond it: phi x max(max_interval, initial_interval)
        let bound = (wc.fd.phi * (wc.fd.max_interval.max(wc.fd.initial) as f64)).ceil() as u64 + 1;
        emit(&mut run, &mut steps, json!({"a": "Advance", "d": bound}), out);
        emit(&mut run, &mut steps, json!({"a": "Liveness", "n": "n1"}), out);
    }
}

/// C09 byte-level driver: honest traffic produces valid datagrams; random, bit-flipped, truncated,
/// extended and spliced variants of them are delivered (interleaved with honest steps) exactly as
/// the UDP socket would deliver them: decode, then process. Every delivery is logged with the node's
/// projected state, whether the real decoder and the independent codec accepted the bytes, and any
/// caught panic.
fn fuzz(cfgv: &Value, wc: WorldCfg, out: &mut impl Write) {
    let seed = num(cfgv, "seed", 1);
    let ntraces = num(cfgv, "traces", 10);
    let len = num(cfgv, "len", 120) as usize;
    let keys = strs(cfgv, "keys");
    let mut rng = StdRng::seed_from_u64(seed);
    for t in 0..ntraces {
        let mut run = Run::new(wc.clone());
        writeln!(out, "{}", json!({"a": "Reset", "trace": t})).unwrap();
        let nodes = wc.nodes.clone();
        let mut steps: Vec<Value> = Vec::new();
        let mut pool: Vec<Vec<u8>> = Vec::new();
        let mut inflight: Vec<usize> = Vec::new();
        let mut vc = 0;
        for _ in 0..len {
            let n = nodes.choose(&mut rng).unwrap().clone();
            let r = rng.random_range(0..100);
            if r < 55 || pool.is_empty() {
                // honest step
                let st = match rng.random_range(0..10) {
                    0..=2 => { vc += 1; json!({"a": "Set", "n": n, "k": keys.choose(&mut rng).unwrap(), "v": format!("v{vc}")}) }
                    3 => json!({"a": "Delete", "n": n, "k": keys.choose(&mut rng).unwrap(), "v": ""}),
                    4..=5 => { let p = nodes.choose(&mut rng).unwrap().clone(); if p == n { json!({"a": "Nop"}) } else { json!({"a": "CreateSyn", "n": n, "to": p}) } }
                    6..=8 => { if inflight.is_empty() { json!({"a": "Nop"}) } else { let m = inflight.remove(rng.random_range(0..inflight.len())); let dst = run.made[m].as_ref().unwrap().dst.clone(); if nodes.contains(&dst) { json!({"a": "Process", "n": dst, "m": m}) } else { json!({"a": "Nop"}) } } }
                    _ => { let what = ["Gc", "Liveness", "Heartbeat"][rng.random_range(0..3)]; json!({"a": what, "n": n}) }
                };
                steps.push(st);
                let i = steps.len() - 1;
                run.step(&steps, i);
                if let Some(m) = &run.made[i] { pool.push(m.bytes.clone()); inflight.push(i); }
                let mut ev = strip_nulls(&run.events[i]);
                ev["i"] = json!(i);
                let a = ev["a"].as_str().unwrap_or("").to_string();
                if a != "Nop" && ev.get("skipped").is_none() { writeln!(out, "{}", ev).unwrap(); }
            } else {
                // hostile datagram
                let mut b = pool.choose(&mut rng).unwrap().clone();
                let mut kind = rng.random_range(0..9);
                if rng.random_range(0..10) < 4 {
                    // structure-aware: syntactically valid operations in semantically arbitrary order,
                    // with versions / watermarks / start versions chosen around the victim's frontiers
                    kind = 9;
                    let view = run.world.project(&n);
                    let mut members: Vec<String> = nodes.clone();
                    members.push("z".to_string());
                    let mut ops: Vec<vharness::codec::WOp> = Vec::new();
                    let nops = rng.random_range(1..7);
                    let mut cur_max = 0u64;
                    for j in 0..nops {
                        if j == 0 || rng.random_range(0..4) == 0 {
                            let x = members.choose(&mut rng).unwrap().clone();
                            let c = &view["ns"][&x];
                            let m = c["max"].as_u64().unwrap_or(0);
                            let g = c["gc"].as_u64().unwrap_or(0);
                            let near = |rng: &mut StdRng, v: u64| -> u64 { match rng.random_range(0..5) { 0 => 0, 1 => v.saturating_sub(1), 2 => v, 3 => v + 1, _ => v + rng.random_range(0..4) } };
                            cur_max = m;
                            ops.push(vharness::codec::WOp::Node { id: vharness::world::wid(&x), gc: near(&mut rng, g.max(m)), from: near(&mut rng, m) });
                        } else if rng.random_range(0..5) == 0 {
                            ops.push(vharness::codec::WOp::SetMax { max: cur_max + rng.random_range(0..3) });
                        } else {
                            let ver = match rng.random_range(0..4) { 0 => cur_max, 1 => cur_max + 1, 2 => cur_max.saturating_sub(1).max(1), _ => cur_max + rng.random_range(1..4) };
                            // keys: the honest ones, a hostile one, the empty key, keys starting with a 2- and a 4-byte character
                            let k = match rng.random_range(0..8) { 0..=3 => keys.choose(&mut rng).unwrap().clone(), 4 => "kh".to_string(), 5 => String::new(), 6 => "état".to_string(), _ => "𝄞x".to_string() };
                            let st = rng.random_range(0..3u8);
                            ops.push(vharness::codec::WOp::KV { key: k, val: if st == 1 { String::new() } else { format!("h{ver}") }, ver, st });
                            if rng.random_bool(0.7) { cur_max = cur_max.max(ver); }
                        }
                    }
                    let msg = if rng.random_bool(0.6) { vharness::codec::WMsg::Ack { ops } } else {
                        let x = members.choose(&mut rng).unwrap().clone();
                        // digest entries may name anybody (the victim included) with any heartbeat / frontier
                        let extreme = |rng: &mut StdRng| -> u64 { match rng.random_range(0..6) { 0 => u64::MAX, 1 => u64::MAX - 1, 2 => 0, 3 => 1u64 << 63, _ => rng.random_range(0..50) } };
                        let mut digest = vec![vharness::codec::WNodeDigest { id: vharness::world::wid(&x), hb: extreme(&mut rng), gc: rng.random_range(0..4), max: rng.random_range(0..6) }];
                        if rng.random_bool(0.5) { digest.push(vharness::codec::WNodeDigest { id: vharness::world::wid(&n), hb: extreme(&mut rng), gc: extreme(&mut rng), max: extreme(&mut rng) }); }
                        if rng.random_bool(0.5) { vharness::codec::WMsg::SynAck { digest, ops } } else { vharness::codec::WMsg::Syn { cluster: "c".into(), digest } }
                    };
                    b = vharness::codec::encode_default(&msg);
                }
                match kind {
                    0 => { let k = rng.random_range(1..4); for _ in 0..k { if !b.is_empty() { let p = rng.random_range(0..b.len()); b[p] ^= 1 << rng.random_range(0..8); } } }
                    1 => { let l = rng.random_range(0..=b.len()); b.truncate(l); }
                    2 => { let extra = rng.random_range(1..64); for _ in 0..extra { b.push(rng.random()); } }
                    3 => { let l = rng.random_range(0..200); b = (0..l).map(|_| rng.random()).collect(); }
                    4 => { let other = pool.choose(&mut rng).unwrap(); let cut = rng.random_range(0..=b.len()); let cut2 = rng.random_range(0..=other.len()); b.truncate(cut); b.extend_from_slice(&other[cut2..]); }
                    5 => { if b.len() > 6 { let p = rng.random_range(4..b.len() - 1); b[p] = 0xff; b[p + 1] = 0xff; } }
                    6 => { if b.len() > 8 { let p = rng.random_range(4..b.len()); let l = rng.random_range(1..(b.len() - p).min(16) + 1); for q in p..p + l { b[q] = 0; } } }
                    7 => { // maximal datagram of junk behind a valid header
                        b.truncate(4.min(b.len())); while b.len() < 65507 { b.push(rng.random()); } }
                    _ => {}
                }
                let codec_ok = vharness::codec::decode(&b).is_ok();
                let (decoded, reply, p) = run.world.deliver(&n, &b);
                if let Some(rb) = reply { pool.push(rb); }
                let post = run.world.project(&n);
                let mut ev = json!({"a": "Recv", "n": n, "len": b.len(), "kind": kind, "decoded": decoded,
                    "codec_decoded": codec_ok, "clock": run.world.now_ticks(), "post": post});
                if let Some(pp) = p { ev["panic"] = json!(pp); }
                if b.len() <= 300 { ev["hex"] = json!(b.iter().map(|x| format!("{x:02x}")).collect::<String>()); }
                writeln!(out, "{}", ev).unwrap();
                // after a structure-aware datagram, half of the time a well-formed SYN with an EMPTY digest
                // follows: the victim then has to serialise every copy it holds (whatever the hostile
                // operations left in them) into its reply
                if kind == 9 && rng.random_bool(0.5) {
                    let probe = vharness::codec::encode_default(&vharness::codec::WMsg::Syn { cluster: "c".into(), digest: vec![] });
                    let (decoded, reply, p) = run.world.deliver(&n, &probe);
                    if let Some(rb) = reply { pool.push(rb); }
                    let post = run.world.project(&n);
                    let mut ev = json!({"a": "Recv", "n": n, "len": probe.len(), "kind": 10, "decoded": decoded,
                        "codec_decoded": true, "clock": run.world.now_ticks(), "post": post});
                    if let Some(pp) = p { ev["panic"] = json!(pp); }
                    ev["hex"] = json!(probe.iter().map(|x| format!("{x:02x}")).collect::<String>());
                    writeln!(out, "{}", ev).unwrap();
                }
            }
        }
    }
}
