//! Independent implementation of chitchat's documented wire layout.
//!
//! Nothing here uses chitchat types. Layout (all integers little endian):
//!   message  := magic:u16(45139) version:u8(0) tag:u8 body
//!   Syn(0)   := digest string(cluster_id)
//!   SynAck(1):= digest stream
//!   Ack(2)   := stream
//!   Bad(3)   :=
//!   digest   := n:u16 { id hb:u64 gc:u64 max:u64 }*n
//!   id       := string(node_id) generation:u64 ip port:u16 ; ip := 4 b[4] | 6 b[16]
//!   string   := len:u16 utf8[len]
//!   stream   := { 1 clen:u16 zstd[clen] | 2 len:u16 raw[len] }* 0
//!   ops (concatenated inside the uncompressed stream):
//!     0 id gc:u64 from:u64 | 1 string(key) string(val) ver:u64 st:u8 | 2 max:u64
use serde::{Deserialize, Serialize};
use std::net::{IpAddr, Ipv4Addr, Ipv6Addr, SocketAddr};

pub const MAGIC: u16 = 45139;

#[derive(Clone, Debug, PartialEq, Eq, Hash, PartialOrd, Ord, Serialize, Deserialize)]
pub struct WId {
    pub node_id: String,
    pub generation: u64,
    pub addr: SocketAddr,
}

#[derive(Clone, Debug, PartialEq, Eq, Serialize, Deserialize)]
pub struct WNodeDigest {
    pub id: WId,
    pub hb: u64,
    pub gc: u64,
    pub max: u64,
}

#[derive(Clone, Debug, PartialEq, Eq, Serialize, Deserialize)]
pub enum WOp {
    Node { id: WId, gc: u64, from: u64 },
    KV { key: String, val: String, ver: u64, st: u8 },
    SetMax { max: u64 },
}

#[derive(Clone, Debug, PartialEq, Eq, Serialize, Deserialize)]
pub enum WMsg {
    Syn { cluster: String, digest: Vec<WNodeDigest> },
    SynAck { digest: Vec<WNodeDigest>, ops: Vec<WOp> },
    Ack { ops: Vec<WOp> },
    BadCluster,
}

/// How the encoder frames the op stream into blocks.
#[derive(Clone, Debug)]
pub enum Framing {
    /// chitchat's own policy: blocks of `threshold` bytes, zstd level 0, raw when zstd fails to
    /// fit the block into a buffer of the block's own size.
    Like { threshold: usize },
    /// every block stored raw, cut every `threshold` bytes.
    Raw { threshold: usize },
    /// every block compressed (even when longer), cut every `threshold` bytes.
    Zstd { threshold: usize },
}

#[derive(Clone, Debug, PartialEq, Eq, Serialize, Deserialize)]
pub struct BlockInfo {
    pub kind: u8,
    pub stored_len: usize,
    pub raw_len: usize,
}

fn put_u16(b: &mut Vec<u8>, v: u16) {
    b.extend_from_slice(&v.to_le_bytes());
}
fn put_u64(b: &mut Vec<u8>, v: u64) {
    b.extend_from_slice(&v.to_le_bytes());
}
fn put_str(b: &mut Vec<u8>, s: &str) {
    assert!(s.len() <= u16::MAX as usize, "string too long for the layout");
    put_u16(b, s.len() as u16);
    b.extend_from_slice(s.as_bytes());
}
fn put_id(b: &mut Vec<u8>, id: &WId) {
    put_str(b, &id.node_id);
    put_u64(b, id.generation);
    match id.addr.ip() {
        IpAddr::V4(ip) => {
            b.push(4);
            b.extend_from_slice(&ip.octets());
        }
        IpAddr::V6(ip) => {
            b.push(6);
            b.extend_from_slice(&ip.octets());
        }
    }
    put_u16(b, id.addr.port());
}
fn put_digest(b: &mut Vec<u8>, d: &[WNodeDigest]) {
    put_u16(b, d.len() as u16);
    for nd in d {
        put_id(b, &nd.id);
        put_u64(b, nd.hb);
        put_u64(b, nd.gc);
        put_u64(b, nd.max);
    }
}

pub fn id_len(id: &WId) -> usize {
    2 + id.node_id.len() + 8 + 1 + if id.addr.is_ipv4() { 4 } else { 16 } + 2
}

pub fn op_len(op: &WOp) -> usize {
    match op {
        WOp::Node { id, .. } => 1 + id_len(id) + 16,
        WOp::KV { key, val, .. } => 1 + 2 + key.len() + 2 + val.len() + 8 + 1,
        WOp::SetMax { .. } => 9,
    }
}

pub fn digest_len(d: &[WNodeDigest]) -> usize {
    2 + d.iter().map(|nd| id_len(&nd.id) + 24).sum::<usize>()
}

pub fn encode_op(b: &mut Vec<u8>, op: &WOp) {
    match op {
        WOp::Node { id, gc, from } => {
            b.push(0);
            put_id(b, id);
            put_u64(b, *gc);
            put_u64(b, *from);
        }
        WOp::KV { key, val, ver, st } => {
            b.push(1);
            put_str(b, key);
            put_str(b, val);
            put_u64(b, *ver);
            b.push(*st);
        }
        WOp::SetMax { max } => {
            b.push(2);
            put_u64(b, *max);
        }
    }
}

pub fn encode_ops_raw(ops: &[WOp]) -> Vec<u8> {
    let mut b = Vec::new();
    for op in ops {
        encode_op(&mut b, op);
    }
    b
}

/// Frames an already concatenated op byte string into blocks.
pub fn frame_stream(out: &mut Vec<u8>, raw: &[u8], framing: &Framing) -> Vec<BlockInfo> {
    let mut infos = Vec::new();
    let (threshold, mode) = match framing {
        Framing::Like { threshold } => (*threshold, 0),
        Framing::Raw { threshold } => (*threshold, 1),
        Framing::Zstd { threshold } => (*threshold, 2),
    };
    assert!(threshold > 0 && threshold <= u16::MAX as usize);
    for chunk in raw.chunks(threshold) {
        let compressed: Option<Vec<u8>> = match mode {
            1 => None,
            2 => Some(zstd::bulk::compress(chunk, 0).expect("zstd")),
            _ => {
                let mut buf = vec![0u8; chunk.len()];
                match zstd::bulk::compress_to_buffer(chunk, &mut buf[..], 0) {
                    Ok(n) => {
                        buf.truncate(n);
                        Some(buf)
                    }
                    Err(_) => None,
                }
            }
        };
        match compressed {
            Some(c) if c.len() <= u16::MAX as usize => {
                out.push(1);
                put_u16(out, c.len() as u16);
                out.extend_from_slice(&c);
                infos.push(BlockInfo { kind: 1, stored_len: c.len(), raw_len: chunk.len() });
            }
            _ => {
                out.push(2);
                put_u16(out, chunk.len() as u16);
                out.extend_from_slice(chunk);
                infos.push(BlockInfo { kind: 2, stored_len: chunk.len(), raw_len: chunk.len() });
            }
        }
    }
    out.push(0);
    infos
}

pub fn encode(msg: &WMsg, framing: &Framing) -> Vec<u8> {
    let mut b = Vec::new();
    put_u16(&mut b, MAGIC);
    b.push(0);
    match msg {
        WMsg::Syn { cluster, digest } => {
            b.push(0);
            put_digest(&mut b, digest);
            put_str(&mut b, cluster);
        }
        WMsg::SynAck { digest, ops } => {
            b.push(1);
            put_digest(&mut b, digest);
            frame_stream(&mut b, &encode_ops_raw(ops), framing);
        }
        WMsg::Ack { ops } => {
            b.push(2);
            frame_stream(&mut b, &encode_ops_raw(ops), framing);
        }
        WMsg::BadCluster => b.push(3),
    }
    b
}

pub fn encode_default(msg: &WMsg) -> Vec<u8> {
    encode(msg, &Framing::Like { threshold: 16384 })
}

// ---------------------------------------------------------------- decoding

pub struct Cur<'a> {
    pub b: &'a [u8],
    pub p: usize,
}

impl<'a> Cur<'a> {
    pub fn new(b: &'a [u8]) -> Self {
        Cur { b, p: 0 }
    }
    fn take(&mut self, n: usize) -> Result<&'a [u8], String> {
        if self.p + n > self.b.len() {
            return Err(format!("short read at {} need {}", self.p, n));
        }
        let s = &self.b[self.p..self.p + n];
        self.p += n;
        Ok(s)
    }
    fn u8(&mut self) -> Result<u8, String> {
        Ok(self.take(1)?[0])
    }
    fn u16(&mut self) -> Result<u16, String> {
        Ok(u16::from_le_bytes(self.take(2)?.try_into().unwrap()))
    }
    fn u64(&mut self) -> Result<u64, String> {
        Ok(u64::from_le_bytes(self.take(8)?.try_into().unwrap()))
    }
    fn string(&mut self) -> Result<String, String> {
        let n = self.u16()? as usize;
        let s = self.take(n)?;
        String::from_utf8(s.to_vec()).map_err(|e| e.to_string())
    }
    fn id(&mut self) -> Result<WId, String> {
        let node_id = self.string()?;
        let generation = self.u64()?;
        let ip = match self.u8()? {
            4 => {
                let o: [u8; 4] = self.take(4)?.try_into().unwrap();
                IpAddr::V4(Ipv4Addr::from(o))
            }
            6 => {
                let o: [u8; 16] = self.take(16)?.try_into().unwrap();
                IpAddr::V6(Ipv6Addr::from(o))
            }
            x => return Err(format!("bad ip tag {x}")),
        };
        let port = self.u16()?;
        Ok(WId { node_id, generation, addr: SocketAddr::new(ip, port) })
    }
    fn digest(&mut self) -> Result<Vec<WNodeDigest>, String> {
        let n = self.u16()?;
        let mut v = Vec::new();
        for _ in 0..n {
            let id = self.id()?;
            let hb = self.u64()?;
            let gc = self.u64()?;
            let max = self.u64()?;
            v.push(WNodeDigest { id, hb, gc, max });
        }
        Ok(v)
    }
    fn stream(&mut self) -> Result<(Vec<u8>, Vec<BlockInfo>), String> {
        let mut raw = Vec::new();
        let mut infos = Vec::new();
        loop {
            match self.u8()? {
                0 => break,
                1 => {
                    let n = self.u16()? as usize;
                    let c = self.take(n)?;
                    let d = zstd::bulk::decompress(c, 65535).map_err(|e| e.to_string())?;
                    infos.push(BlockInfo { kind: 1, stored_len: n, raw_len: d.len() });
                    raw.extend_from_slice(&d);
                }
                2 => {
                    let n = self.u16()? as usize;
                    let c = self.take(n)?;
                    infos.push(BlockInfo { kind: 2, stored_len: n, raw_len: n });
                    raw.extend_from_slice(c);
                }
                x => return Err(format!("bad block tag {x}")),
            }
        }
        Ok((raw, infos))
    }
}

pub fn decode_ops(raw: &[u8]) -> Result<Vec<WOp>, String> {
    let mut c = Cur::new(raw);
    let mut ops = Vec::new();
    while c.p < raw.len() {
        match c.u8()? {
            0 => {
                let id = c.id()?;
                let gc = c.u64()?;
                let from = c.u64()?;
                ops.push(WOp::Node { id, gc, from });
            }
            1 => {
                let key = c.string()?;
                let val = c.string()?;
                let ver = c.u64()?;
                let st = c.u8()?;
                if st > 2 {
                    return Err(format!("bad status {st}"));
                }
                ops.push(WOp::KV { key, val, ver, st });
            }
            2 => {
                let max = c.u64()?;
                ops.push(WOp::SetMax { max });
            }
            x => return Err(format!("bad op tag {x}")),
        }
    }
    Ok(ops)
}

pub struct Decoded {
    pub msg: WMsg,
    pub consumed: usize,
    pub blocks: Vec<BlockInfo>,
    pub digest_len: usize,
    pub raw_stream_len: usize,
}

pub fn decode(bytes: &[u8]) -> Result<Decoded, String> {
    let mut c = Cur::new(bytes);
    if c.u16()? != MAGIC {
        return Err("bad magic".into());
    }
    if c.u8()? != 0 {
        return Err("bad version".into());
    }
    let tag = c.u8()?;
    let mut blocks = Vec::new();
    let mut dlen = 0;
    let mut rlen = 0;
    let msg = match tag {
        0 => {
            let p0 = c.p;
            let digest = c.digest()?;
            dlen = c.p - p0;
            let cluster = c.string()?;
            WMsg::Syn { cluster, digest }
        }
        1 => {
            let p0 = c.p;
            let digest = c.digest()?;
            dlen = c.p - p0;
            let (raw, bl) = c.stream()?;
            blocks = bl;
            rlen = raw.len();
            WMsg::SynAck { digest, ops: decode_ops(&raw)? }
        }
        2 => {
            let (raw, bl) = c.stream()?;
            blocks = bl;
            rlen = raw.len();
            WMsg::Ack { ops: decode_ops(&raw)? }
        }
        3 => WMsg::BadCluster,
        x => return Err(format!("bad message tag {x}")),
    };
    Ok(Decoded { msg, consumed: c.p, blocks, digest_len: dlen, raw_stream_len: rlen })
}

/// Decodes a bare delta (op stream), as returned by `verif_compute_delta`.
pub fn decode_delta(bytes: &[u8]) -> Result<(Vec<WOp>, Vec<BlockInfo>, usize), String> {
    let mut c = Cur::new(bytes);
    let (raw, bl) = c.stream()?;
    Ok((decode_ops(&raw)?, bl, c.p))
}

pub fn encode_digest(d: &[WNodeDigest]) -> Vec<u8> {
    let mut b = Vec::new();
    put_digest(&mut b, d);
    b
}
