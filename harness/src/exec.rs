//! Executes a behaviour (list of model-level steps) on real nodes and records the real trace.
use crate::world::{RealMsg, World, WorldCfg};
use serde_json::{json, Map, Value};

/// Canonical form for comparing TLC's ToJson output with projections: empty arrays and empty
/// objects are identified, `hb` and `fd` fields are optionally stripped, numbers are integers.
pub fn canon(v: &Value, strip_hb: bool) -> Value {
    match v {
        Value::Array(a) => {
            if a.is_empty() {
                Value::Object(Map::new())
            } else {
                Value::Array(a.iter().map(|x| canon(x, strip_hb)).collect())
            }
        }
        Value::Object(o) => {
            let mut m = Map::new();
            for (k, x) in o {
                if strip_hb && (k == "hb" || k == "fd") {
                    continue;
                }
                m.insert(k.clone(), canon(x, strip_hb));
            }
            Value::Object(m)
        }
        Value::Number(n) => {
            if let Some(i) = n.as_i64() {
                json!(i)
            } else if let Some(f) = n.as_f64() {
                json!(f as i64)
            } else {
                v.clone()
            }
        }
        _ => v.clone(),
    }
}

/// Removes null-valued fields (TLC's JSON reader rejects null) -- used when writing trace files.
pub fn strip_nulls(v: &Value) -> Value {
    match v {
        Value::Object(o) => {
            let mut m = Map::new();
            for (k, x) in o {
                if !x.is_null() {
                    m.insert(k.clone(), strip_nulls(x));
                }
            }
            Value::Object(m)
        }
        Value::Array(a) => Value::Array(a.iter().map(strip_nulls).collect()),
        _ => v.clone(),
    }
}

pub fn same(a: &Value, b: &Value, strip_hb: bool) -> bool {
    canon(a, strip_hb) == canon(b, strip_hb)
}

pub struct Run {
    pub world: World,
    /// real message created by step i (if any)
    pub made: Vec<Option<RealMsg>>,
    pub events: Vec<Value>,
}

fn s<'a>(v: &'a Value, k: &str) -> &'a str {
    v.get(k).and_then(|x| x.as_str()).unwrap_or("")
}

impl Run {
    pub fn new(cfg: WorldCfg) -> Run {
        Run { world: World::new(cfg), made: Vec::new(), events: Vec::new() }
    }

    /// Which earlier step made the message this step delivers: explicit index `m`, else the latest
    /// earlier step whose *model-predicted* output equals this step's model message.
    fn find_maker(steps: &[Value], i: usize) -> Option<usize> {
        let st = &steps[i];
        if let Some(m) = st.get("m").and_then(|x| x.as_u64()) {
            return Some(m as usize);
        }
        let msg = st.get("msg")?;
        let want = canon(msg, false);
        (0..i).rev().find(|&j| {
            steps[j].get("out").map(|o| !o.is_null() && canon(o, false) == want).unwrap_or(false)
        })
    }

    pub fn step(&mut self, steps: &[Value], i: usize) {
        let st = &steps[i];
        let a = s(st, "a").to_string();
        let n = s(st, "n").to_string();
        let mut ev = Map::new();
        ev.insert("a".into(), json!(a));
        if !n.is_empty() {
            ev.insert("n".into(), json!(n));
        }
        let mut made: Option<RealMsg> = None;
        let mut panic: Option<String> = None;
        match a.as_str() {
            "Set" | "SetTtl" | "Delete" | "DeleteTtl" => {
                let k = s(st, "k");
                let v = s(st, "v");
                ev.insert("k".into(), json!(k));
                ev.insert("v".into(), json!(v));
                panic = self.world.api(&n, &a, k, v);
            }
            "Heartbeat" | "Gc" | "Liveness" => {
                panic = self.world.simple(&n, &a);
            }
            "Advance" => {
                let d = st.get("d").and_then(|x| x.as_u64()).unwrap_or(1);
                ev.insert("d".into(), json!(d));
                self.world.advance(d);
            }
            "CreateSyn" => {
                let to = s(st, "to");
                ev.insert("to".into(), json!(to));
                match self.world.create_syn(&n, to) {
                    Ok(m) => made = Some(m),
                    Err(p) => panic = Some(p),
                }
            }
            "Process" => {
                let maker = Self::find_maker(steps, i);
                let real = maker.and_then(|j| self.made.get(j).cloned().flatten());
                match real {
                    None => {
                        ev.insert("skipped".into(), json!(true));
                    }
                    Some(rm) => {
                        ev.insert("m".into(), json!(maker.unwrap()));
                        ev.insert("msg".into(), self.world.project_msg(&rm));
                        let (decoded, reply, p) = self.world.deliver(&n, &rm.bytes);
                        ev.insert("decoded".into(), json!(decoded));
                        panic = p;
                        if let Some(b) = reply {
                            made = Some(RealMsg { bytes: b, src: n.clone(), dst: rm.src.clone() });
                        }
                    }
                }
            }
            "Inject" => {
                // crafted message from a (possibly fictitious) sender
                let mv = st.get("msg").cloned().unwrap_or(Value::Null);
                let w = self.world.wmsg_of_model(&mv);
                let bytes = crate::codec::encode_default(&w);
                let src = s(&mv, "src").to_string();
                ev.insert("msg".into(), mv.clone());
                let (decoded, reply, p) = self.world.deliver(&n, &bytes);
                ev.insert("decoded".into(), json!(decoded));
                panic = p;
                if let Some(b) = reply {
                    made = Some(RealMsg { bytes: b, src: n.clone(), dst: src });
                }
            }
            "Catchup" => {
                let x = s(st, "x").to_string();
                let kvs = st.get("kvs").cloned().unwrap_or(json!({}));
                let max = st.get("max").and_then(|x| x.as_u64()).unwrap_or(0);
                let gc = st.get("gc").and_then(|x| x.as_u64()).unwrap_or(0);
                ev.insert("x".into(), json!(x));
                ev.insert("kvs".into(), kvs.clone());
                ev.insert("max".into(), json!(max));
                ev.insert("gc".into(), json!(gc));
                panic = self.world.catchup(&n, &x, &kvs, max, gc);
            }
            "Lose" | "Crash" | "Cut" | "Heal" | "Fair" | "Nop" => {
                for (k, v) in st.as_object().unwrap() {
                    if k != "out" && k != "post" {
                        ev.insert(k.clone(), v.clone());
                    }
                }
            }
            other => {
                ev.insert("unknown".into(), json!(other));
            }
        }
        let out = match &made {
            Some(m) => self.world.project_msg(m),
            None => Value::Null,
        };
        ev.insert("out".into(), out);
        if let Some(m) = &made {
            ev.insert("outlen".into(), json!(m.bytes.len()));
        }
        if let Some(p) = panic {
            ev.insert("panic".into(), json!(p));
        }
        ev.insert("clock".into(), json!(self.world.now_ticks()));
        if !n.is_empty() && self.world.nodes.contains_key(&n) {
            let post = self.world.project(&n);
            ev.insert("post".into(), post);
        }
        self.made.push(made);
        self.events.push(Value::Object(ev));
    }

    pub fn run_all(&mut self, steps: &[Value]) {
        for i in 0..steps.len() {
            self.step(steps, i);
        }
    }

    pub fn views(&mut self) -> Value {
        let names: Vec<String> = self.world.nodes.keys().cloned().collect();
        let mut m = Map::new();
        for n in names {
            let v = self.world.project(&n);
            m.insert(n, v);
        }
        Value::Object(m)
    }
}
