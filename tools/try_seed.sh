#!/bin/bash
# Applies a seeded patch to /repo, runs the given checks (quick tier), and undoes the patch.
# usage: try_seed.sh <patch.diff> <Cxx> [Cyy ...]
P=$1; shift
cd /verif
git -C /repo diff --quiet || { echo "/repo is dirty"; exit 2; }
git -C /repo apply "$P" || exit 2
EV=$(mktemp -d); cp evidence/*.json $EV/
for c in "$@"; do ./check $c --tier ${TIER:-quick} 2>&1 | grep -E "VIOLATION|KNOWN-FINDING|TOOL-ERROR|^\[C" | cut -c1-300 | head -${LINES_MAX:-6}; done
git -C /repo checkout -- .
cp $EV/*.json evidence/; rm -rf $EV
git -C /repo status --short
