#!/bin/bash
# Confirms a seeded defect in its scratch worktree /tmp/wt-<id>:
#  1. HEAD + patch.diff compiles (with and without feature verif) and the whole suite passes
#  2. HEAD + patch.diff + demo.diff : the demonstration FAILS
#  3. HEAD + demo.diff              : the demonstration PASSES
# usage: confirm_seed.sh <id> [srcdir=/tmp/seed-out/<id>] ; writes <srcdir>/confirm.log and confirm.json
ID=$1; SRC=${2:-/tmp/seed-out/$ID}; WT=/tmp/wt-$ID
export RUSTUP_TOOLCHAIN=1.88.0 CARGO_NET_OFFLINE=true
LOG=$SRC/confirm.log; : > $LOG
cd $WT || exit 2
git checkout -q -- . ; git clean -fdq chitchat chitchat-test
git apply $SRC/patch.diff || { echo "patch does not apply" >> $LOG; exit 2; }
cargo build -p chitchat --features verif --offline >> $LOG 2>&1; B1=$?
cargo test --workspace --no-fail-fast --offline -- --test-threads 6 > $SRC/suite.out 2>&1; S=$?
FAILED=$(grep -E "^test [A-Za-z_:0-9]+ \.\.\. FAILED" $SRC/suite.out | grep -v "test_bandwidth_100\|test_delay_before_dead_detection_100 " | wc -l)
PASSED=$(grep -E "^test .* ok$" $SRC/suite.out | wc -l)
git apply $SRC/demo.diff || { echo "demo does not apply on patch" >> $LOG; }
DEMO_FILTER=${DEMO_FILTER:-seeded_demo}
cargo test -p chitchat --offline $DEMO_FILTER -- --test-threads 4 > $SRC/demo_with.out 2>&1; DW=$?
DWN=$(grep -E "^test .*(ok|FAILED)$" $SRC/demo_with.out | wc -l)
git checkout -q -- . ; git clean -fdq chitchat chitchat-test
git apply $SRC/demo.diff
cargo test -p chitchat --offline $DEMO_FILTER -- --test-threads 4 > $SRC/demo_without.out 2>&1; DO=$?
DON=$(grep -E "^test .* ok$" $SRC/demo_without.out | wc -l)
git checkout -q -- . ; git clean -fdq chitchat chitchat-test
echo "{\"id\":\"$ID\",\"build_verif_rc\":$B1,\"suite_rc\":$S,\"suite_passed\":$PASSED,\"suite_failed_nonflaky\":$FAILED,\"demo_with_patch_rc\":$DW,\"demo_with_tests\":$DWN,\"demo_without_patch_rc\":$DO,\"demo_without_passed\":$DON}" | tee $SRC/confirm.json
