#!/bin/bash
# Confirms a sub-agent deliverable living in its own scratch worktree.
# usage: confirm_round.sh <id> <worktree>   (expects <worktree>/patch.diff and <worktree>/demo.diff)
ID=$1; W=$2; SRC=/tmp/seed-out/$ID
mkdir -p $SRC; cp $W/patch.diff $W/demo.diff $SRC/ || exit 2
ln -sfn $W /tmp/wt-$ID
/verif/tools/confirm_seed.sh $ID $SRC
rm -f /tmp/wt-$ID
