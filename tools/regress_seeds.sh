#!/bin/bash
# Re-runs every kept seeded defect against the quick check of its property and reports which are detected.
# usage: regress_seeds.sh [name-prefix ...]   (default: all of /verif/seeded) ; writes .work/regress.tsv
# Applies each patch to /repo, runs the check, undoes the patch; evidence files are restored at the end.
cd /verif
git -C /repo diff --quiet || { echo "/repo is dirty"; exit 2; }
EV=$(mktemp -d); cp evidence/*.json $EV/
OUT=.work/regress.tsv; : > $OUT
sel=("$@"); [ ${#sel[@]} -eq 0 ] && sel=("")
for d in /verif/seeded/*/; do
  name=$(basename $d)
  ok=0; for s in "${sel[@]}"; do case "$name" in "$s"*) ok=1;; esac; done; [ $ok -eq 1 ] || continue
  prop=$(python3 -c "import json;print(json.load(open('$d/meta.json'))['property'])")
  git -C /repo apply "$d/patch.diff" || { echo -e "$name\t$prop\tAPPLY-FAILED" | tee -a $OUT; continue; }
  s=$(date +%s)
  ./check $prop > .work/regress_$name.log 2>&1; rc=$?
  v=$(grep -c "^VIOLATION property=$prop" .work/regress_$name.log)
  t=$(grep -c "TOOL-ERROR" .work/regress_$name.log)
  git -C /repo checkout -- .
  res=MISSED; [ $v -gt 0 ] && res=detected; [ $t -gt 0 ] && res=TOOL-ERROR
  echo -e "$name\t$prop\t$res\trc=$rc\tviolations=$v\t$(( $(date +%s)-s ))s" | tee -a $OUT
done
cp $EV/*.json evidence/; rm -rf $EV
git -C /repo status --short
echo "detected: $(grep -c detected $OUT) / $(wc -l < $OUT)"
