#!/usr/bin/env python3
"""Stores a confirmed seeded defect under /verif/seeded/<name>/ (patch.diff, demo.diff, meta.json)."""
import json, os, shutil, sys
name, prop, src = sys.argv[1], sys.argv[2], sys.argv[3]
needs, detected_by = sys.argv[4], sys.argv[5]
d = f"/verif/seeded/{name}"
os.makedirs(d, exist_ok=True)
for f in ("patch.diff", "demo.diff", "notes.md", "confirm.json"):
    if os.path.exists(os.path.join(src, f)):
        shutil.copy(os.path.join(src, f), os.path.join(d, f))
conf = json.load(open(os.path.join(src, "confirm.json")))
meta = {"property": prop, "needs_to_manifest": needs,
        "confirmed": {"how": "tools/confirm_seed.sh in a scratch worktree of /repo (removed afterwards): "
                             "HEAD+patch builds with --features verif and passes the whole suite; "
                             "demo fails with patch, passes without", **conf},
        "detected_by": detected_by}
json.dump(meta, open(os.path.join(d, "meta.json"), "w"), indent=1)
print("kept", d)
