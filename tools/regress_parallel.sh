#!/bin/bash
# Parallel seed regression: K workers, each with its own scratch copy of /repo (git worktree) and of /verif
# under /tmp/regress-<k> (removed at the end). usage: regress_parallel.sh K ; result: /verif/.work/regress_all.tsv
K=${1:-3}
cd /verif
names=($(ls seeded | sort))
# fast (non-gossip) families first, then the cluster family
order=$(python3 - <<'PY'
import json,os
fam={"C06","C08","C09","C10","C11","C14","C15","C17","C19"}
fast=[];slow=[]
for n in sorted(os.listdir('/verif/seeded')):
    p=json.load(open(f'/verif/seeded/{n}/meta.json'))['property']
    (fast if p in fam else slow).append(n)
print(" ".join(fast+slow))
PY
)
i=0
for k in $(seq 1 $K); do : > .work/regress_w$k.list; done
for n in $order; do k=$(( i % K + 1 )); echo $n >> .work/regress_w$k.list; i=$((i+1)); done
for k in $(seq 1 $K); do
(
  W=/tmp/regress-$k
  rm -rf $W; mkdir -p $W
  git -C /repo worktree add -q --detach $W/repo HEAD
  cp /repo/Cargo.lock $W/repo/ 2>/dev/null
  mkdir -p $W/verif
  rsync -a --exclude .git --exclude replays --exclude '.work/tmp' --exclude '.work/regress*' --exclude '.work/evidence_clean' /verif/ $W/verif/
  sed -i "s#^REPO = \"/repo\"#REPO = \"$W/repo\"#" $W/verif/lib/vlib.py
  sed -i "s#path = \"/repo/chitchat\"#path = \"$W/repo/chitchat\"#" $W/verif/harness/Cargo.toml
  mkdir -p $W/verif/.work/tmp $W/verif/replays
  cd $W/verif
  : > $W/out.tsv
  while read name; do
    d=/verif/seeded/$name
    prop=$(python3 -c "import json;print(json.load(open('$d/meta.json'))['property'])")
    git -C $W/repo apply $d/patch.diff || { echo -e "$name\t$prop\tAPPLY-FAILED" >> $W/out.tsv; continue; }
    s=$(date +%s)
    ./check $prop > $W/log_$name.txt 2>&1; rc=$?
    v=$(grep -c "^VIOLATION property=$prop" $W/log_$name.txt)
    t=$(grep -c "TOOL-ERROR" $W/log_$name.txt)
    git -C $W/repo checkout -- .
    res=MISSED; [ $v -gt 0 ] && res=detected; [ $t -gt 0 ] && res=TOOL-ERROR
    echo -e "$name\t$prop\t$res\trc=$rc\tviolations=$v\t$(( $(date +%s)-s ))s" >> $W/out.tsv
    cp $W/out.tsv /verif/.work/regress_w$k.tsv
  done < /verif/.work/regress_w$k.list
) &
done
wait
cat /verif/.work/regress_w*.tsv | sort > /verif/.work/regress_all.tsv
for k in $(seq 1 $K); do git -C /repo worktree remove --force /tmp/regress-$k/repo; rm -rf /tmp/regress-$k; done
git -C /repo worktree prune
echo "detected: $(grep -c detected /verif/.work/regress_all.tsv) / $(wc -l < /verif/.work/regress_all.tsv)"
