#!/usr/bin/env python3
"""Regenerates MANIFEST.json from the table below (single source for what is claimed)."""
import json, os
HERE = os.path.dirname(os.path.abspath(__file__))
props = [json.loads(l)["id"] for l in open(os.path.join(HERE, "properties.jsonl"))]

CLAIMS = {
 "C06": dict(
   level=("model_checking", "LocalKV.tla is the reference versioned map; TLC enumerates every edge of its state graph "
          "up to the length bound (quick 4 ops, thorough 5) over prefix-related keys incl. the empty key, and each edge is replayed "
          "on a real node with ALL reads compared; random sequences in two op mixes (uniform; collection-heavy with one-tick advances) are recorded from the real node and "
          "validated by TLC against the same actions and invariants.", "6 (C06)"),
   note="trusts tokio's paused clock (1 tick = 1 s), TLC, and that equal abstract states behave equally (every edge is "
        "replayed from the initial state along one path)",
   technique="TLA+ reference model (LocalKV.tla) + exhaustive edge replay + TLC trace validation"),
 "C01": dict(
   level=("model_checking", "Gossip.tla states a complete loss-free handshake as a FUNCTION on global states built from the same operators as the actions (HandshakeFn) and C01 as two state invariants evaluated in EVERY reachable state of the chaos model (losses, duplicates, reordering, GC, size truncation with Budget = 1 entry unit): C01_Progress (for every ordered pair: newer deliverable data on either side => some copy at the two nodes strictly advances its (GC watermark, max version)) and C01_Converges (ConvRounds fair rounds of all ordered pairs reach the frontier for every advertised member; K = 0 is refuted, so the formula is not vacuous). The real code is bound by edge replay and by driver traces that append a fair phase of real complete handshakes: C01_ConvergedReal at the end of the fair phase and C01_ProgressObs on every flagged real handshake, judged on non-conforming executions and their fair continuations by the observer.", "6 (C01)"),
   note="known finding KF-2 (budget hogging by a member the receiver has scheduled for deletion) is exempted by the formula Hogged and its witness is replayed on every run; fair rounds use one canonical pair order in the model and random orders in the driver; 2 nodes exhaustive in the quick tier (3 in thorough), 3-4 nodes in driver traces; assumes the digest and any single entry fit one datagram",
   technique="TLA+ model checking (Gossip.tla) + edge replay + TLC trace validation + observer spec on real traces"),
 "C02": dict(
   level=("model_checking", "Gossip.tla (implementation-shaped model of the cluster, one action per Chitchat entry point) is model-checked by TLC for small constants "
          "with the ledger-exactness invariant C02_NoResurrection in every state; every transition of the quick config is replayed on real nodes with whole projected states compared; "
          "seeded random cluster scenarios (3-4 nodes, deletes, TTL, GC, partitions, late joiners, loss, duplication, reordering) are recorded from the real code and validated by TLC against the same actions and invariants; "
          "non-conforming executions are judged by the observer specification on the logged real states, after amplification by random continuations. Larger configurations (a datagram delayed across a collection and a size-truncated reset; a stale relay talking to a mid-reset replica, 2-3 M states) are model-checked in full and the transitions they exist for (deliveries to a copy whose watermark is above its max version) are exported and replayed (focused export; TLC output committed under corpus/ keyed by the spec+cfg hash for the quick tier, recomputed in the thorough tier).", "6 (C02), 2.2, 4"),
   note="bounded scopes (exhaustive only for the listed constants); known finding KF-1 is exempted by its ghost-variable signature mid[x] (known_findings.json) and its witness is replayed on every run; trusts TLC, the projection through chitchat's public API and the independent wire codec",
   technique="TLA+ model checking (Gossip.tla) + edge replay + TLC trace validation + observer spec on real traces"),
 "C03": dict(
   level=("model_checking", "Same Gossip.tla runs as C02 with the invariant C03_Integrity (every entry of every copy, every in-flight delta and digest is a ledger write of its owner with the same key/value/version/status; no copy or digest runs ahead of the owner) evaluated in every model state and on every step of every validated real trace.", "6 (C03)"),
   note="values are distinct per write in the driver so cross-wiring is visible; bounded scopes; one incarnation per ChitchatId",
   technique="TLA+ model checking (Gossip.tla) + edge replay + TLC trace validation + observer spec on real traces"),
 "C04": dict(
   level=("model_checking", "Gossip.tla action properties C04_Monotonic (lexicographic (gc,max) per copy, key versions) and C04_FreshVersion, invariant C04_NoPanic, on the model and on every real step (replayed edges, validated driver traces; a panic caught in process_message is data).", "6 (C04)"),
   note="includes the static pair scope: every (copy, honest-shaped delta) case of Agreement.tla (versions 0..3 quick / 0..5 thorough) replayed on real nodes with C04_Pairs; bounded scopes",
   technique="TLA+ model checking (Gossip.tla) + edge replay + TLC trace validation + observer spec on real traces"),
 "C05": dict(
   level=("model_checking", "Gossip.tla action property C05_OwnUntouched (own key-values/max/gc change only through the local API and own GC; heartbeat +1 only on process/heartbeat) and invariant C05_OwnerAhead, on the model and on every real step.", "6 (C05)"),
   note="bounded scopes; one incarnation per ChitchatId; honest peers only",
   technique="TLA+ model checking (Gossip.tla) + edge replay + TLC trace validation + observer spec on real traces"),
 "C20": dict(
   level=("model_checking", "Gossip.tla action property C20_Callback: per processed message the callback counter grows by exactly 1 iff some copy's GC watermark strictly increased during that call (observable definition of a reset), else 0; evaluated on the model and on every real step.", "6 (C20)"),
   note="includes every C14-scope pair of Agreement.tla replayed on real nodes with the callback count compared (C20_PairsObs); bounded scopes",
   technique="TLA+ model checking (Gossip.tla) + edge replay + TLC trace validation + observer spec on real traces"),
 "C14": dict(
   level=("model_checking", "Agreement.tla enumerates EVERY well-formed (sender copy, receiver copy, truncation point) within the scope as an initial state (quick: versions/watermarks 0..3, 3 sender keys, every status, watermark above max included = 145 680 cases; thorough 0..5) and checks the agreement rule C14_Agreement on each; every case is realised on two real nodes (copies installed with crafted ACKs, delta computed by the real sender under a byte budget admitting exactly b key-values, delivered as an ACK) and compared; differing outcomes are judged by the same formula on the observed values.", "6 (C14)"),
   note="receiver copies range over one key (receiver key-values at or below its max version cannot influence the outcome); exhaustive within the scope only; trusts the independent codec and TLC",
   technique="TLA+ exhaustive pair enumeration (Agreement.tla) + replay of every case on two real nodes + observer spec"),
 "C07": dict(
   level=("model_checking", "Structural half: Gossip.tla action property C07_Structure (per member of every produced delta: member not scheduled for deletion, start version in {0, digest max}, key-values exactly the sender's entries in (start, max], ascending) on the model, on every real reply of every replayed edge and validated driver trace (including ~30/50 KB values that force truncation), and on all Agreement.tla pairs at every truncation point (C07_Range). Size half: every real datagram length is logged and C07_Size (<= 65 507) is evaluated by TLC on every real step; Budget.tla + boundary-directed sweep (see note).", "6 (C07)"),
   note="size half: Budget.tla models the stream writer / serializer / budget arithmetic with a nondeterministic compressor at small scale (C07_DatagramFits, C07_WriterBound, C07_WithinBudget; assumes zstd saves >= 3 bytes on every full 16 KB block, which lets one item span several blocks) and a boundary-directed sweep on a real node whose own digest is within ~100-2000 bytes of the limit records every reply length for ObserveBudget.tla; defect O-1 (header not reserved) was found this way and repaired by a fix: commit; bounded scopes",
   technique="TLA+ model checking (Gossip.tla) + edge replay + TLC trace validation + observer spec on real traces"),
 "C12": dict(
   level=("model_checking", "Gossip.tla with the concrete phi-accrual detector in integer ticks: invariant C12_Sets and action properties C12_Partition (exactly one of live/dead after an evaluation), C12_Quarantine (no digest/delta mentions a member dead for more than grace/2), C12_Removal, C12_NoRevival (re-creation only through a digest heartbeat strictly above the remembered one, not live on re-creation); model-checked on the membership config, replayed edge by edge, and evaluated on every step of real driver traces with 3-5 nodes, crashes by silence, partitions and clock advances around grace/2 and grace.", "6 (C12)"),
   note="removed-member memory modelled unbounded (capacity 500 not reached); death times are inferred by TLC in trace validation and derived from the logged evaluation clock in the observer; detector boundary equality may round either way (explicit in the spec)",
   technique="TLA+ model checking (Gossip.tla) + edge replay + TLC trace validation + observer spec on real traces"),
 "C13": dict(
   level=("model_checking", "Gossip.tla action properties C13_Publish (a new value, exact at that moment, iff the live set or a live member's max version changed since the previous evaluation), C13_OnlyEval, and C13_Exact (value exactness after every evaluation) in the scope without tombstone GC; with and without an extra liveness predicate; on the model, replayed edges, real driver traces and generated membership schedules in which several members change state in one evaluation (watch value and publication count are projected through the public watcher).", "6 (C13)"),
   note="C13_Exact is claimed only for executions without tombstone GC (C12's step relation plus plain writes; see DESIGN observation O-4); predicates are functions of key-values",
   technique="TLA+ model checking (Gossip.tla) + edge replay + TLC trace validation + observer spec on real traces"),
 "C16": dict(
   level=("model_checking", "Gossip.tla with per-node cluster ids: invariant C16_Isolation (no copy, detector entry, dead/live/removed entry of a foreign-cluster member) and action property C16_Reject (a foreign SYN is answered with BadCluster and changes nothing but the own heartbeat); model-checked for two clusters sharing peers, replayed, and evaluated on real traces of five nodes in four clusters whose ids are '', 'c', 'C', 'cc'.", "6 (C16)"),
   note="bounded scopes; seeds are modelled as the ability of any node to address any other",
   technique="TLA+ model checking (Gossip.tla) + edge replay + TLC trace validation + observer spec on real traces"),
 "C18": dict(
   level=("model_checking", "Gossip.tla action Catchup (transcription of reset_node_state_if_update) with C18_Catchup (others untouched, live set unchanged, no re-creation of a removed member, (gc,max) never lowered, key set old or supplied with the newer version kept) and C18_NoPanic; model-checked interleaved with gossip and GC, replayed, and evaluated on real traces fed with honest peer snapshots and with arbitrary inconsistent states (any key set, statuses and versions incl. tombstones at or below the receiving copy's watermark, on copies with and without a watermark).", "6 (C18)"),
   note="defect F-4 (panic on older watermark / key-less snapshot) was found by this check and repaired by a fix: commit (known_findings.json, status fixed); supplied versions are pairwise distinct (observation O-2)",
   technique="TLA+ model checking (Gossip.tla) + edge replay + TLC trace validation + observer spec on real traces"),
 "C10": dict(
   level=("model_checking", "Detector.tla (Gossip.tla + heartbeat arrivals as crafted SYN digests for one observed member + ghost evidence counters) with the integer-tick phi-accrual detector of FdOps.tla: C10_Complete (silent longer than phi x max(max_interval, initial_interval) => dead and not live at the next evaluation) C10_TwoObservations and its sharpened form C10_UsableEvidence (live => at least one interval between two reported heartbeats at most max_interval apart accepted since the last evaluation that found the member dead), model-checked for all arrival histories up to the bound over a grid of detector parameters, every transition replayed on a real Chitchat under the paused clock, plus long random histories (steady phases, bursts, silences, stale heartbeats; windows to 1000, phi 0.5..16) validated by TLC.", "6 (C10)"),
   note="the detector window (sample count, sum, last report) is part of the projected state through hook verif_fd_windows, so every replay and validated trace compares it; durations are whole seconds (exact in f64); equality phi = threshold with an inexact mean may round either way (explicit in the spec); bounded arrival counts in the exhaustive part",
   technique="TLA+ model checking (Detector.tla/FdOps.tla) + edge replay + TLC trace validation + observer spec"),
 "C11": dict(
   level=("model_checking", "Same Detector.tla runs with C11_NeedsEvidence (live => at least two strictly increasing heartbeat values observed), C11_StaleIgnored (equal/lower/replayed/relayed heartbeats change nothing but the observer's own heartbeat) and C11_Steady (arrivals within [a,b], b <= max_interval, phi >= b/min(a, initial) => live at every evaluation).", "6 (C11)"),
   note="C11_Steady reads the (unobservable) sampling window and is therefore judged on conforming executions only; otherwise as C10",
   technique="TLA+ model checking (Detector.tla/FdOps.tla) + edge replay + TLC trace validation + observer spec"),
 "C15": dict(
   level=("model_checking", "Listeners.tla states, for every case (subscriptions with the fate of their handles held/dropped/forever x key x 11 kinds of local and replicated key events), exactly which callbacks the property demands; TLC enumerates all cases over the alphabet {a, b, é (2 bytes), 𝄞 (4 bytes)} (quick: every single (prefix,key) pair up to length 2 and all three-subscription sets over short prefixes; thorough: length 3); each case runs on a real node through subscribe_event, local writes and replicated writes; differing observations are judged by C15_Dispatch on the observed calls.", "6 (C15)"),
   note="defect F-2 (panic on keys starting with a multi-byte character) was found by this check and repaired by a fix: commit; replicated writes are injected as crafted ACKs; exhaustive within the string-length bounds",
   technique="TLA+ exhaustive case enumeration (Listeners.tla) + replay of every case on a real node + observer spec"),
 "C17": dict(
   level=("model_checking", "PeerSelection.tla enumerates every (peers, live, dead, seeds) input over 6 addresses up to address renaming (1716 canonical inputs) and defines the allowed outputs (Allowed) plus the two 'always' clauses as TLC-checked invariants; the real select_nodes_for_gossip is called on every input under several address assignments and a battery of scripted RNGs (constant extremes, counters, strides, every 7-draw script over spread values, seeded streams); every distinct observed (input, output) pair is judged by TLC against the same formulas.", "6 (C17)"),
   note="HashSet iteration order is random per process, so the set of outputs actually observed varies between runs; exhaustive over subset structure, sampled over RNG outputs",
   technique="TLA+ exhaustive input enumeration (PeerSelection.tla) + real calls under scripted RNGs + observer spec"),
 "C09": dict(
   level=("model_checking", "Hostile.tla = Gossip.tla + an adversary delivering every decodable datagram built from op streams of up to 3 syntactically valid operations in arbitrary order (member headers incl. the victim's own id and unknown members, key-values, SetMaxVersion), digests and cluster ids over small values; the decoder (DeltaBuilder::apply_op) and every assertion on the processing path are transcribed; TLC checks no panic, monotonic frontiers and the live/dead set invariants and exports every transition, each replayed on real nodes through the independent codec. Byte level: random, bit-flipped, truncated, extended, spliced and 65 507-byte variants of real datagrams delivered to real nodes in evolving states, judged by the observer specification (no panic, undecodable => state unchanged, monotonic, set invariants).", "6 (C09)"),
   note="defect F-3 (SetMaxVersion after key-values aborts the node) was found by this check and repaired by a fix: commit; u64 values beyond TLC's 32-bit integers are rank-compressed per trace (formulas only compare them); member sets stay far below one datagram",
   technique="TLA+ model checking with adversary (Hostile.tla) + edge replay through independent codec + byte-level fuzz traces judged by observer spec"),
 "C08": dict(
   level=("other", "Reference-layout agreement. Wire.tla states the documented layout as arithmetic over message shapes; TLC enumerates 18 757 (quick) shapes over the property's length classes (0, 1, 255, 256, 16383, 16384, 16385, 65535), digests of 0/1/2/2000 entries, IPv4/IPv6, header-only / key-value (every status) / SetMaxVersion / empty-member op mixes, raw framing with thresholds 100/16384/65535 (several uncompressed blocks) and the encoder's own framing. Each shape is realised by the independent codec with three string contents (compressible ASCII, 7-bit random, multi-byte UTF-8); the codec's byte counts are checked against the spec, the real decoder must accept the bytes, consume all of them and announce their exact length, the real encoder must reproduce them for its own framing, and the codec must read the real encoder's output; in addition every datagram emitted by real nodes in random cluster runs (up to ~53 KB, several compressed blocks) is round-tripped through both implementations. Observations are judged by ObserveWire.tla.", "6 (C08)"),
   note="zstd is trusted; compressed-block contents are not modelled in TLA+ (their framing is); messages are compared through the derived Debug view because message internals are crate-private",
   technique="TLA+ layout arithmetic over enumerated message shapes (Wire.tla) + independent codec + real decoder/encoder round trips judged by observer spec"),
 "C19": dict(
   level=("model_checking", "Server.tla models the gossip loop seen from outside (scripted transport, command channel, state mutex, termination watcher) with one action per script event and states C19 as TLC-checked properties (send errors harmless, a live loop keeps heartbeating and answering, fatal receive error / panic / shutdown end the loop and are reported, a dead loop does nothing). TLC enumerates EVERY script of up to 4 (quick; 41 370 scripts) / 5 (thorough) events over 14 event kinds including each event while the user holds the state mutex; every script is run against the real spawn_chitchat loop on a scripted public Transport/Socket under the paused clock and the observed per-event effects are compared; differences are judged by ObserveServer.tla. The real UdpTransport is exercised on loopback with garbage datagrams up to 65 507 bytes and an unreachable seed, then a shutdown.", "6 (C19)"),
   note="oversized sends are injected as Socket::send errors on the scripted transport (the kernel's refusal cannot be provoked through the public API); scripts longer than the bound (up to the property's 12 events) are not enumerated: the model's control state (running, watcher value, pending send failures, armed panic) takes all its values within 3 events, longer scripts only repeat (control state, event) pairs; the UDP part is real-time",
   technique="TLA+ exhaustive script enumeration (Server.tla) + replay on the real server loop with a scripted transport + observer spec; loopback UDP driver"),
}
PENDING = "specification module for this property not built yet in this revision (see DESIGN.md section 10 build order)"

m = {
 "version": 1,
 "setup_cmd": "./check setup",
 "hooks": {
   "guard": "cargo feature `verif` of the chitchat crate (chitchat/Cargo.toml [features] verif = [])",
   "enable": "the harness depends on chitchat by path with features = [\"verif\"] (harness/Cargo.toml); cargo build --release --offline in /verif/harness",
   "baseline_off_cmd": "cd /repo && RUSTUP_TOOLCHAIN=1.88.0 cargo test --workspace --no-fail-fast --offline",
   "source_commits": json.load(open(os.path.join(HERE, "hook_commits.json"))),
   "add_only": True,
 },
 "engines": [
   {"name": "tlc", "path": "/opt/veriftools/tla/tla2tools.jar", "serves_properties": sorted(CLAIMS), "kind_free_text": "explicit-state model checker for the TLA+ specifications in /verif/spec; also validates recorded traces"},
   {"name": "vharness", "path": "/verif/harness", "serves_properties": sorted(CLAIMS), "kind_free_text": "Rust harness driving real chitchat nodes (paused tokio clock); replays TLC behaviours, records traces, independent wire codec"},
 ],
 "checks": [],
 "not_applicable": [],
 "notes": "Every check is `./check <id> --tier quick|thorough`; spec-only TLC results are cached under .work/cache by specification hash, everything touching the code is recomputed from /repo's working tree on every run.",
}
for p in props:
    if p in CLAIMS:
        c = CLAIMS[p]
        m["checks"].append({
          "property_id": p,
          "quick_cmd": f"./check {p} --tier quick",
          "thorough_cmd": f"./check {p} --tier thorough",
          "evidence_file": f"/verif/evidence/{p}.json",
          "replay_cmd_template": f"./check {p} --replay {{path}}",
          "engine": "tlc+vharness",
          "level_claimed": {"category": c["level"][0], "text": c["level"][1], "design_ref": c["level"][2]},
          "level_note": c["note"],
          "technique": c["technique"],
        })
    else:
        m["not_applicable"].append({"property_id": p, "reason": PENDING})
json.dump(m, open(os.path.join(HERE, "MANIFEST.json"), "w"), indent=1)
print("claimed:", sorted(CLAIMS), "pending:", len(m["not_applicable"]))
