#!/usr/bin/env python3
"""Regenerates MANIFEST.json from the table below (single source for what is claimed)."""
import json, os
HERE = os.path.dirname(os.path.abspath(__file__))
props = [json.loads(l)["id"] for l in open(os.path.join(HERE, "properties.jsonl"))]

CLAIMS = {
 "C06": dict(
   level=("model_checking", "LocalKV.tla is the reference versioned map; TLC enumerates every edge of its state graph "
          "up to the length bound (quick 4 ops, thorough 5) over prefix-related keys incl. the empty key, and each edge is replayed "
          "on a real node with ALL reads compared; random length-40 sequences are recorded from the real node and "
          "validated by TLC against the same actions and invariants.", "6 (C06)"),
   note="trusts tokio's paused clock (1 tick = 1 s), TLC, and that equal abstract states behave equally (every edge is "
        "replayed from the initial state along one path)",
   technique="TLA+ reference model (LocalKV.tla) + exhaustive edge replay + TLC trace validation"),
}
PENDING = "specification module for this property not built yet in this revision (see DESIGN.md section 10 build order)"

m = {
 "version": 1,
 "setup_cmd": "./check setup",
 "hooks": {
   "guard": "cargo feature `verif` of the chitchat crate (chitchat/Cargo.toml [features] verif = [])",
   "enable": "the harness depends on chitchat by path with features = [\"verif\"] (harness/Cargo.toml); cargo build --release --offline in /verif/harness",
   "baseline_off_cmd": "cd /repo && cargo test --workspace --no-fail-fast --offline",
   "source_commits": json.load(open(os.path.join(HERE, "hook_commits.json"))),
   "add_only": True,
 },
 "engines": [
   {"name": "tlc", "path": "/opt/veriftools/tla/tla2tools.jar", "serves_properties": sorted(CLAIMS), "kind_free_text": "explicit-state model checker for the TLA+ specifications in /verif/spec; also validates recorded traces"},
   {"name": "vharness", "path": "/verif/harness", "serves_properties": sorted(CLAIMS), "kind_free_text": "Rust harness driving real chitchat nodes (paused tokio clock); replays TLC behaviours, records traces, independent wire codec"},
 ],
 "checks": [],
 "not_applicable": [],
 "notes": "Every check is `./check <id> --tier quick|thorough`; spec-only TLC results are cached under .work/cache by specification hash, everything touching the code is recomputed from /repo's working tree on every run.",
}
for p in props:
    if p in CLAIMS:
        c = CLAIMS[p]
        m["checks"].append({
          "property_id": p,
          "quick_cmd": f"./check {p} --tier quick",
          "thorough_cmd": f"./check {p} --tier thorough",
          "evidence_file": f"/verif/evidence/{p}.json",
          "replay_cmd_template": f"./check {p} --replay {{path}}",
          "engine": "tlc+vharness",
          "level_claimed": {"category": c["level"][0], "text": c["level"][1], "design_ref": c["level"][2]},
          "level_note": c["note"],
          "technique": c["technique"],
        })
    else:
        m["not_applicable"].append({"property_id": p, "reason": PENDING})
json.dump(m, open(os.path.join(HERE, "MANIFEST.json"), "w"), indent=1)
print("claimed:", sorted(CLAIMS), "pending:", len(m["not_applicable"]))
