--------------------------- MODULE ObserveDetector ---------------------------
(* Observer for C10 / C11 on real arrival histories: the observer node's state is taken from the
   log, the evidence ghosts (fresh heartbeat count, tick of the last fresh heartbeat) are advanced
   from the logged arrivals.  The detector window is not observable, so C11_Steady is judged on
   conforming traces only (TraceDetector). *)
EXTENDS Detector, IOUtils, TLCExt

Rec == ndJsonDeserialize(IOEnv.TRACE)
VARIABLE l
ovars == <<dvars, hist, l>>
ObsInit == DInit /\ l = 1

FromPost(old, e, n) ==
  LET p == e.post IN
  [ns |-> p.ns, gcd |-> old.gcd, fd |-> EmptyFn, live |-> (DOMAIN p.live) \ {n},
   dead |-> [y \in DOMAIN p.dead |-> IF y \in DOMAIN old.dead THEN old.dead[y] ELSE e.clock],
   prev |-> old.prev, watch |-> p.watch, wseq |-> p.wseq, cb |-> p.cb]

ObsNext ==
  /\ l <= Len(Rec)
  /\ l' = l + 1
  /\ LET e == Rec[l] IN
     IF e.a = "Reset" THEN
        /\ st' = [n \in Node |-> InitNode(n)] /\ net' = {} /\ clock' = 0
        /\ ledger' = [n \in Node |-> <<>>] /\ mid' = [n \in Node |-> FALSE]
        /\ panic' = FALSE /\ hist' = <<>>
        /\ GhostReset
     ELSE
        /\ hist' = <<l, e>>
        /\ clock' = e.clock
        /\ st' = IF "post" \in DOMAIN e THEN [st EXCEPT ![e.n] = FromPost(st[e.n], e, e.n)] ELSE st
        /\ UNCHANGED <<net, ledger, mid>>
        /\ panic' = (panic \/ "panic" \in DOMAIN e)
        /\ IF e.a = "Inject" THEN GhostArrive(e.msg.digest[X].hb, clock)
           ELSE IF e.a = "Liveness" THEN GhostEval(clock)
           ELSE GhostSame

ObsSpec == ObsInit /\ [][ObsNext]_ovars
ObsView == <<dvars, l>>
ObsDone ==
  LET d == TLCGet("stats").diameter IN
  IF d - 1 = Len(Rec) THEN TRUE ELSE Print(<<"OBSERVE-INCOMPLETE at event", d>>, FALSE)
==============================================================================
