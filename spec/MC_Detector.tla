---- MODULE MC_Detector ----
EXTENDS Detector
MC_Cluster == [n \in Node |-> "c"]
MC_Addr == [n \in Node |-> n]
====
