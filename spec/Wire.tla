---------------------------------- MODULE Wire ----------------------------------
(***************************************************************************)
(* C08: the documented wire layout as arithmetic over message SHAPES.      *)
(* A shape fixes every length that the layout depends on (string lengths   *)
(* by class, address families, number of digest entries, the op stream,    *)
(* the block framing); Layout(shape) gives the exact number of bytes of    *)
(* every part.  TLC enumerates shapes over the property's length classes;  *)
(* the harness realises each shape with the independent codec, checks the  *)
(* codec against these numbers, feeds the bytes to the real decoder and    *)
(* (for the real encoder's own framing) back through the real encoder.     *)
(*   message := magic:u16 version:u8 tag:u8 body                           *)
(*   string  := len:u16 bytes ; id := string gen:u64 ipTag:u8 ip[4|16] port:u16*)
(*   digest  := n:u16 { id hb:u64 gc:u64 max:u64 }^n                       *)
(*   stream  := { tag:u8 len:u16 bytes }* 0  (raw blocks cut every T bytes)*)
(*   ops: Node := 0 id gc:u64 from:u64 ; KV := 1 string string ver:u64 st:u8 ; SetMax := 2 max:u64*)
(***************************************************************************)
EXTENDS Integers, Sequences, FiniteSets, TLC, Json

CONSTANTS Tier   \* "quick" | "thorough": size of the shape space

LenClasses == {0, 1, 255, 256, 16383, 16384, 16385, 65535}
SmallLens == {0, 1}
IdLens == IF Tier = "quick" THEN {1, 256} ELSE {0, 1, 255, 256, 65535}

IdLen(id) == 2 + id.len + 8 + 1 + (IF id.v6 THEN 16 ELSE 4) + 2
OpLen(op) == CASE op.o = "Node"   -> 1 + IdLen(op.id) + 8 + 8
               [] op.o = "KV"     -> 1 + 2 + op.klen + 2 + op.vlen + 8 + 1
               [] op.o = "SetMax" -> 1 + 8

RECURSIVE SumOps(_, _)
SumOps(ops, i) == IF i > Len(ops) THEN 0 ELSE OpLen(ops[i]) + SumOps(ops, i + 1)
RawLen(ops) == SumOps(ops, 1)

\* digest shape: n entries, every id of the same shape (keeps 2000-entry digests cheap)
DigestLen(d) == 2 + d.n * (IdLen(d.id) + 24)

\* raw framing with threshold T: full blocks of T bytes, a last partial block, the end marker
CeilDiv(a, b) == (a + b - 1) \div b
RawBlocks(raw, T) == CeilDiv(raw, T)
RawStreamLen(raw, T) == raw + 3 * RawBlocks(raw, T) + 1

Ids == {[len |-> l, v6 |-> v] : l \in IdLens, v \in BOOLEAN}
KvPairs == {<<k, v>> \in LenClasses \X LenClasses : k \in SmallLens \/ v \in SmallLens}
KVs == {[o |-> "KV", klen |-> p[1], vlen |-> p[2], st |-> s] : p \in KvPairs, s \in 0..2}
SmallKVs == {[o |-> "KV", klen |-> k, vlen |-> v, st |-> 0] : k \in {0, 255}, v \in {1, 65535}}
NodeOp(id) == [o |-> "Node", id |-> id]
SetMaxOp == [o |-> "SetMax"]

Streams ==
  {<<>>}
  \cup {<<NodeOp(i)>> : i \in Ids}
  \cup {<<NodeOp(i), SetMaxOp>> : i \in Ids}
  \cup {<<NodeOp(i), kv>> : i \in Ids, kv \in KVs}
  \cup {<<NodeOp(i), kv, kv2>> : i \in Ids, kv \in KVs, kv2 \in SmallKVs}
  \cup {<<NodeOp(i), kv, NodeOp(j), SetMaxOp>> : i \in Ids, j \in Ids, kv \in SmallKVs}
  \cup {<<NodeOp(i), NodeOp(j)>> : i \in Ids, j \in Ids}

Digests == {[n |-> n, id |-> i] : n \in {0, 1, 2, 2000}, i \in Ids}
\* framing: raw blocks with the given threshold, or the real encoder's own policy ("like", 16384)
\* ... or every block compressed with blocks LONGER than the real encoder ever writes ("zstd": a foreign
\* encoder of the same layout may put up to 65 535 bytes in a block)
Framings == {[mode |-> "raw", T |-> t] : t \in {100, 16384, 65535}} \cup {[mode |-> "like", T |-> 16384]}
            \cup {[mode |-> "zstd", T |-> t] : t \in {16385, 40000}}
\* forced compression may expand incompressible content slightly
ZstdSlack(raw, T) == raw \div 128 + 80 * RawBlocks(raw, T)

Shapes ==
  {[t |-> "Bad"]}
  \cup {[t |-> "Syn", cluster |-> c, digest |-> d] : c \in LenClasses, d \in Digests}
  \cup {[t |-> "Ack", ops |-> s, framing |-> f] : s \in Streams, f \in Framings}
  \cup {[t |-> "SynAck", digest |-> d, ops |-> s, framing |-> f] :
          d \in {x \in Digests : x.n \in {0, 2}}, s \in {y \in Streams : Len(y) <= 2}, f \in Framings}

VARIABLES shape, done, layout
vars == <<shape, done, layout>>

\* the layout numbers for a shape; stream length is exact for raw framing, and for the encoder's own
\* policy only the raw length and an upper bound are fixed (zstd decides the rest)
Layout(sh) ==
  CASE sh.t = "Bad" -> [total |-> 4]
    [] sh.t = "Syn" -> [total |-> 4 + DigestLen(sh.digest) + 2 + sh.cluster, digest |-> DigestLen(sh.digest)]
    [] sh.t = "Ack" ->
         LET raw == RawLen(sh.ops) IN
         [raw |-> raw, oplens |-> [i \in 1..Len(sh.ops) |-> OpLen(sh.ops[i])],
          blocks |-> RawBlocks(raw, sh.framing.T),
          total |-> IF sh.framing.mode = "raw" THEN 4 + RawStreamLen(raw, sh.framing.T) ELSE -1,
          bound |-> 4 + RawStreamLen(raw, sh.framing.T) + (IF sh.framing.mode = "zstd" THEN ZstdSlack(raw, sh.framing.T) ELSE 0)]
    [] sh.t = "SynAck" ->
         LET raw == RawLen(sh.ops) IN
         [raw |-> raw, oplens |-> [i \in 1..Len(sh.ops) |-> OpLen(sh.ops[i])], digest |-> DigestLen(sh.digest),
          blocks |-> RawBlocks(raw, sh.framing.T),
          total |-> IF sh.framing.mode = "raw" THEN 4 + DigestLen(sh.digest) + RawStreamLen(raw, sh.framing.T) ELSE -1,
          bound |-> 4 + DigestLen(sh.digest) + RawStreamLen(raw, sh.framing.T)
                    + (IF sh.framing.mode = "zstd" THEN ZstdSlack(raw, sh.framing.T) ELSE 0)]

Init == shape \in Shapes /\ done = FALSE /\ layout = [total |-> 0]
Compute == ~done /\ done' = TRUE /\ layout' = Layout(shape) /\ UNCHANGED shape
Spec == Init /\ [][Compute]_vars

\* sanity of the arithmetic itself
LayoutSane ==
  done => /\ layout.total >= 4 \/ layout.total = -1
          /\ ("blocks" \in DOMAIN layout /\ layout.raw > 0) => layout.blocks >= 1
          /\ ("blocks" \in DOMAIN layout /\ shape.framing.mode = "raw") =>
               (layout.blocks - 1) * shape.framing.T < layout.raw /\ layout.raw <= layout.blocks * shape.framing.T

EmitEdge == PrintT("EDGE " \o ToJson([shape |-> shape, layout |-> layout']))
=================================================================================
