---- MODULE MC_TraceGossip ----
EXTENDS TraceGossip
MC_Node == {"n1", "n2", "n3", "n4", "n5"}
MC_Cluster == [n \in Node |-> IF n \in {"n4x", "n5x"} THEN "other" ELSE "c"]
====
