--------------------------------- MODULE Server ---------------------------------
(***************************************************************************)
(* C19: the gossip server loop (server.rs Server::run) seen from outside:  *)
(* a scripted transport, the command channel, the shared state mutex, the  *)
(* termination watcher.  One action per script event; each action states   *)
(* what the loop must do with it (heartbeat increments, datagrams sent and *)
(* whether the transport accepted them, what the termination watcher       *)
(* reports).  The node is configured with one seed and never learns a peer *)
(* (incoming digests are empty), so every round contacts exactly the seed. *)
(*   Tick        one gossip interval elapses                               *)
(*   RecvSyn / RecvSynBad / RecvAck   a valid datagram arrives             *)
(*   CmdGossip   ChitchatHandle::gossip(addr)                              *)
(*   SendFail    the transport will fail the next send (oversized datagram,*)
(*               unreachable peer): Socket::send returns an error          *)
(*   RecvFatal   Socket::recv returns an error (socket broken)             *)
(*   SendPanic   the next send panics inside the loop's task               *)
(*   Shutdown    ChitchatHandle::initiate_shutdown                         *)
(*   Hold(e)     the user holds the state mutex while e happens, then      *)
(*               releases it                                               *)
(*   CmdGossip issued WITHOUT waiting for the loop (nosettle): it stays    *)
(*               queued on the command channel and the next event -- only  *)
(*               another command, the channel is FIFO -- finds it there;   *)
(*               the loop must serve the queue in order (gossips, then     *)
(*               possibly the shutdown)                                    *)
(***************************************************************************)
EXTENDS Integers, Sequences, TLC, Json

CONSTANTS MaxLen

VARIABLES running,     \* the loop is alive
          term,        \* what the termination watcher reports: "none" | "ok" | "err" | "panic"
          hb,          \* heartbeat increments so far (beyond the initial value)
          failNext,    \* number of upcoming sends the transport will fail
          panicArmed,  \* the next send panics
          hist,        \* the script so far, with the effects each event must have
          defer        \* gossip commands queued but not yet served (issued without waiting)

vars == <<running, term, hb, failNext, panicArmed, hist, defer>>

Plain == {"Tick", "RecvSyn", "RecvSynBad", "RecvAck", "CmdGossip", "SendFail", "RecvFatal", "SendPanic", "Shutdown"}
Holdable == {"Tick", "RecvSyn", "CmdGossip", "Shutdown", "RecvFatal"}

\* what a live loop does with an event: heartbeat increments and datagrams it tries to send
HbOf(e)    == IF e \in {"Tick", "RecvSyn", "RecvSynBad", "RecvAck"} THEN 1 ELSE 0
SendsOf(e) == CASE e = "Tick"       -> <<"Syn">>
                [] e = "RecvSyn"    -> <<"SynAck">>
                [] e = "RecvSynBad" -> <<"Bad">>
                [] e = "CmdGossip"  -> <<"Syn">>
                [] OTHER            -> <<>>

\* the start-up round: tokio's interval fires immediately
Init ==
  /\ running = TRUE /\ term = "none" /\ hb = 1 /\ failNext = 0 /\ panicArmed = FALSE /\ defer = 0
  /\ hist = <<[e |-> "Start", hold |-> FALSE, nosettle |-> FALSE, dhb |-> 1, sends |-> <<[t |-> "Syn", ok |-> TRUE]>>,
               term |-> "none", running |-> TRUE]>>

\* effect of one event on the loop's control state s = [running, term, failNext, panicArmed]
Eff(s, e) ==
  LET wants == IF s.running THEN SendsOf(e) ELSE <<>>
      panics == s.running /\ s.panicArmed /\ wants # <<>>
      sent == IF panics THEN <<>> ELSE [i \in 1..Len(wants) |-> [t |-> wants[i], ok |-> i > s.failNext]]
      run2 == s.running /\ ~panics /\ e \notin {"RecvFatal", "Shutdown"}
      term2 == IF ~s.running THEN s.term
               ELSE IF panics THEN "panic"
               ELSE IF e = "RecvFatal" THEN "err"
               ELSE IF e = "Shutdown" THEN "ok" ELSE s.term
  IN [s |-> [running |-> run2, term |-> term2,
             failNext |-> IF e = "SendFail" THEN s.failNext + 1
                          ELSE IF Len(sent) > s.failNext THEN 0 ELSE s.failNext - Len(sent),
             panicArmed |-> IF e = "SendPanic" THEN TRUE ELSE IF panics THEN FALSE ELSE s.panicArmed],
      dhb |-> IF s.running THEN HbOf(e) ELSE 0, sent |-> sent]
\* ... of k queued gossip commands followed by e
RECURSIVE EffQ(_, _, _)
EffQ(s, k, e) ==
  IF k = 0 THEN Eff(s, e)
  ELSE LET r1 == Eff(s, "CmdGossip")  r2 == EffQ(r1.s, k - 1, e)
       IN [s |-> r2.s, dhb |-> r1.dhb + r2.dhb, sent |-> r1.sent \o r2.sent]

Cur == [running |-> running, term |-> term, failNext |-> failNext, panicArmed |-> panicArmed]
Event(e, hold) ==
  /\ defer > 0 => (~hold /\ e \in {"CmdGossip", "Shutdown"})
  /\ LET r == EffQ(Cur, defer, e) IN
     /\ running' = r.s.running /\ term' = r.s.term /\ failNext' = r.s.failNext /\ panicArmed' = r.s.panicArmed
     /\ hb' = hb + r.dhb
     /\ defer' = 0
     /\ hist' = Append(hist, [e |-> e, hold |-> hold, nosettle |-> FALSE, dhb |-> r.dhb, sends |-> r.sent,
                              term |-> r.s.term, running |-> r.s.running])
\* a gossip command issued without waiting: nothing observable yet
GossipNoSettle ==
  /\ defer' = defer + 1
  /\ UNCHANGED <<running, term, hb, failNext, panicArmed>>
  /\ hist' = Append(hist, [e |-> "CmdGossip", hold |-> FALSE, nosettle |-> TRUE, dhb |-> 0, sends |-> <<>>,
                           term |-> term, running |-> running])

Next == \/ \E e \in Plain : Event(e, FALSE)
        \/ \E e \in Holdable : Event(e, TRUE)
        \/ GossipNoSettle
Spec == Init /\ [][Next]_vars
\* (a script does not end with a command still queued)
Bound == Len(hist) + (IF defer > 0 THEN 1 ELSE 0) <= MaxLen + 1

-------------------------------------------------------------------------------
\* C19 as properties of every script
Last == hist[Len(hist)]
\* failed sends never terminate the loop or change what the watcher reports
C19_SendErrorsHarmless ==
  [][ (Len(hist') > Len(hist) /\ running /\ hist'[Len(hist')].e \in {"Tick", "RecvSyn", "RecvSynBad", "CmdGossip", "SendFail"}
       /\ ~panicArmed) => (running' /\ term' = term) ]_vars
\* a queued gossip command never swallows what is queued behind it
C19_QueueInOrder ==
  [][ (Len(hist') > Len(hist) /\ defer > 0 /\ running /\ ~panicArmed /\ ~hist'[Len(hist')].nosettle) =>
        LET s == hist'[Len(hist')] IN
        /\ Len(s.sends) >= defer /\ \A i \in 1..defer : s.sends[i].t = "Syn"
        /\ s.e = "Shutdown" => (term' = "ok" /\ ~running') ]_vars
\* a live loop keeps heartbeating and answering
C19_KeepsWorking ==
  [][ (Len(hist') > Len(hist) /\ running /\ ~panicArmed) =>
        LET s == hist'[Len(hist')] IN
        /\ s.e = "Tick" => (s.dhb = 1 /\ Len(s.sends) = 1)
        /\ s.e = "RecvSyn" => (s.dhb = 1 /\ Len(s.sends) = 1 /\ s.sends[1].t = "SynAck") ]_vars
\* fatal receive error / panic / shutdown end the loop and are reported
C19_Reported ==
  /\ (~running) <=> (term # "none")
  /\ \A i \in 1..Len(hist) :
       /\ (hist[i].e = "RecvFatal" /\ hist[i].term # hist[IF i > 1 THEN i - 1 ELSE 1].term) => hist[i].term = "err"
       /\ hist[i].e = "Shutdown" => hist[i].term # "none"
\* a dead loop does nothing
C19_DeadIsDead ==
  [][ (Len(hist') > Len(hist) /\ ~running) =>
        (hist'[Len(hist')].dhb = 0 /\ hist'[Len(hist')].sends = <<>> /\ term' = term) ]_vars

EmitEdge == PrintT("EDGE " \o ToJson([steps |-> hist']))
=================================================================================
