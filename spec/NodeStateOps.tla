------------------------------ MODULE NodeStateOps ------------------------------
(***************************************************************************)
(* Pure operators, one per function of chitchat's state.rs / delta.rs /    *)
(* types.rs.  A copy of a member's state is a record                       *)
(*   [hb, max, gc, kv]   with kv a function  key -> [val, ver, st, ts]     *)
(* st \in {"Set","Del","Ttl"}; ts = tick at which the status was created   *)
(* (0 for "Set").  The empty value is the empty string.                    *)
(***************************************************************************)
EXTENDS Integers, Sequences, FiniteSets, TLC

MaxOf(S) == CHOOSE x \in S : \A y \in S : y <= x
MinOf(S) == CHOOSE x \in S : \A y \in S : x <= y

Entry(v, ver, st, ts) == [val |-> v, ver |-> ver, st |-> st, ts |-> ts]
EmptyFn == <<>>
NewCopy == [hb |-> 0, max |-> 0, gc |-> 0, kv |-> EmptyFn]

Put(f, k, e) == [x \in (DOMAIN f) \cup {k} |-> IF x = k THEN e ELSE f[x]]
Drop(f, ks)  == [x \in (DOMAIN f) \ ks |-> f[x]]
Has(f, k)    == k \in DOMAIN f

\* types.rs: VersionedValue::is_deleted -- a TTL entry is NOT deleted (still visible)
IsDeleted(e) == e.st = "Del"
\* types.rs: DeletionStatusMutation::scheduled_for_deletion
Scheduled(st) == st \in {"Del", "Ttl"}

Visible(c, k) == Has(c.kv, k) /\ ~IsDeleted(c.kv[k])
VisibleKeys(c) == {k \in DOMAIN c.kv : ~IsDeleted(c.kv[k])}

---------------------------------------------------------------------------------
\* Local API (state.rs:282-359)

\* NodeState::set
LocalSet(c, k, v) ==
  IF Has(c.kv, k) /\ c.kv[k].val = v /\ c.kv[k].st = "Set"
  THEN c
  ELSE [c EXCEPT !.max = c.max + 1, !.kv = Put(c.kv, k, Entry(v, c.max + 1, "Set", 0))]

\* NodeState::set_with_ttl
LocalSetTtl(c, k, v, now) ==
  IF Has(c.kv, k) /\ c.kv[k].val = v /\ c.kv[k].st = "Ttl"
  THEN c
  ELSE [c EXCEPT !.max = c.max + 1, !.kv = Put(c.kv, k, Entry(v, c.max + 1, "Ttl", now))]

\* NodeState::delete
LocalDelete(c, k, now) ==
  IF ~Has(c.kv, k) THEN c
  ELSE [c EXCEPT !.max = c.max + 1, !.kv = Put(c.kv, k, Entry("", c.max + 1, "Del", now))]

\* NodeState::delete_after_ttl
LocalDeleteTtl(c, k, now) ==
  IF ~Has(c.kv, k) THEN c
  ELSE [c EXCEPT !.max = c.max + 1,
                 !.kv = Put(c.kv, k, Entry(c.kv[k].val, c.max + 1, "Ttl", now))]

\* does the write fire listeners? (set / set_with_ttl go through set_versioned_value;
\* delete / delete_after_ttl mutate in place)
LocalFires(c, op, k, v) ==
  CASE op = "Set"    -> LocalSet(c, k, v) # c
    [] op = "SetTtl" -> LocalSetTtl(c, k, v, 0) # c
    [] OTHER         -> FALSE

---------------------------------------------------------------------------------
\* Tombstone GC (state.rs:393-415)
Collectible(e, now, grace) == e.st # "Set" /\ now >= e.ts + grace
GcCopy(c, now, grace) ==
  LET rm == {k \in DOMAIN c.kv : Collectible(c.kv[k], now, grace)}
  IN [c EXCEPT !.kv = Drop(c.kv, rm),
               !.gc = MaxOf({c.gc} \cup {c.kv[k].ver : k \in rm})]

---------------------------------------------------------------------------------
\* Heartbeats (state.rs:370-383): returns <<copy', reported?>>
TryHeartbeat(c, hb) ==
  IF c.hb = 0 THEN <<[c EXCEPT !.hb = hb], FALSE>>
  ELSE IF hb > c.hb THEN <<[c EXCEPT !.hb = hb], TRUE>>
  ELSE <<c, FALSE>>

DigestOf(c) == [hb |-> c.hb, gc |-> c.gc, max |-> c.max]

---------------------------------------------------------------------------------
\* Receiver side (state.rs:143-239).  A node-delta is
\*   [from, gc, max, kvs]  kvs a sequence of [k, v, ver, st]
CheckDelta(c, nd) ==
  IF nd.from > c.max THEN "Reject"
  ELSE IF ~(nd.gc <= c.gc \/ nd.gc <= c.max)
       THEN (IF nd.from # 0 THEN "Reject" ELSE "Reset")
       ELSE (IF c.max < nd.max THEN "Apply" ELSE "Reject")

\* set_versioned_value (state.rs:442-471)
SetVersioned(c, k, e) ==
  LET c1 == [c EXCEPT !.max = IF e.ver > c.max THEN e.ver ELSE c.max]
  IN IF Has(c.kv, k) /\ c.kv[k].ver >= e.ver THEN c1
     ELSE [c1 EXCEPT !.kv = Put(c.kv, k, e)]
\* does set_versioned_value fire the listeners?
SetVersionedFires(c, k, e) ==
  ~(Has(c.kv, k) /\ c.kv[k].ver >= e.ver) /\ ~IsDeleted(e)

RECURSIVE ApplyKvs(_, _, _, _, _)
ApplyKvs(c, kvs, i, curmax, now) ==
  IF i > Len(kvs) THEN c
  ELSE LET m == kvs[i] IN
       IF m.ver <= curmax THEN ApplyKvs(c, kvs, i + 1, curmax, now)
       ELSE IF Scheduled(m.st) /\ m.ver <= c.gc THEN ApplyKvs(c, kvs, i + 1, curmax, now)
       ELSE ApplyKvs(SetVersioned(c, m.k,
                       Entry(m.v, m.ver, m.st, IF m.st = "Set" THEN 0 ELSE now)),
                     kvs, i + 1, curmax, now)

\* sequence of [k, v] listener firings caused by applying kvs
RECURSIVE ApplyFires(_, _, _, _, _)
ApplyFires(c, kvs, i, curmax, now) ==
  IF i > Len(kvs) THEN <<>>
  ELSE LET m == kvs[i] IN
       IF m.ver <= curmax THEN ApplyFires(c, kvs, i + 1, curmax, now)
       ELSE IF Scheduled(m.st) /\ m.ver <= c.gc THEN ApplyFires(c, kvs, i + 1, curmax, now)
       ELSE LET e == Entry(m.v, m.ver, m.st, IF m.st = "Set" THEN 0 ELSE now)
                rest == ApplyFires(SetVersioned(c, m.k, e), kvs, i + 1, curmax, now)
            IN IF SetVersionedFires(c, m.k, e) THEN <<[k |-> m.k, v |-> m.v]>> \o rest ELSE rest

\* NodeState::apply_delta; returns [c, status, panic]
\* the assertion at state.rs:236 (`nd.max >= self.max` after the loop) is modelled as panic
ApplyNodeDelta(c, nd, now) ==
  LET status == CheckDelta(c, nd) IN
  IF status = "Reject" THEN [c |-> c, status |-> status, panic |-> FALSE]
  ELSE LET c0 == IF status = "Reset"
                 THEN [hb |-> 0, max |-> 0, gc |-> nd.gc, kv |-> EmptyFn]
                 ELSE c
           c1 == ApplyKvs(c0, nd.kvs, 1, c0.max, now)
       IN IF nd.max >= c1.max
          THEN [c |-> [c1 EXCEPT !.max = nd.max], status |-> status, panic |-> FALSE]
          ELSE [c |-> c1, status |-> status, panic |-> TRUE]

---------------------------------------------------------------------------------
\* Sender side (state.rs:632-703)
\* dg = [gc, max] from the peer's digest ((0,0) when the member is missing)
IsStale(c, dg) == c.max > dg.max
ShouldReset(c, dg) == dg.gc < c.gc /\ dg.max < c.gc
FromVersion(c, dg) == IF ShouldReset(c, dg) THEN 0 ELSE dg.max

StaleKeys(c, from) == {k \in DOMAIN c.kv : c.kv[k].ver > from}

\* keys sorted by version (versions are distinct within a well-formed copy)
RECURSIVE SortByVer(_, _)
SortByVer(c, ks) ==
  IF ks = {} THEN <<>>
  ELSE LET k == CHOOSE x \in ks : \A y \in ks : c.kv[x].ver <= c.kv[y].ver
       IN <<k>> \o SortByVer(c, ks \ {k})

KvMutation(c, k) == [k |-> k, v |-> c.kv[k].val, ver |-> c.kv[k].ver, st |-> c.kv[k].st]

\* staleness key (state.rs:711-783): <<is_unknown, max, num_stale>>
Staleness(c, from) ==
  [unknown |-> from = 0, max |-> c.max,
   n |-> IF from = 0 THEN Cardinality(VisibleKeys(c)) ELSE Cardinality(StaleKeys(c, from))]
\* a has strictly higher priority than b (served earlier)
Before(a, b) ==
  \/ a.unknown /\ ~b.unknown
  \/ a.unknown /\ b.unknown /\ a.max < b.max
  \/ ~a.unknown /\ ~b.unknown /\ a.n > b.n
\* BTreeMap key equality: for unknown nodes (max, n is ignored by Ord but Eq derives all fields;
\* BTreeMap uses Ord) -- same group iff neither is before the other
SameGroup(a, b) == ~Before(a, b) /\ ~Before(b, a)

---------------------------------------------------------------------------------
\* Decoder of the op stream (delta.rs DeltaBuilder::apply_op + Delta::deserialize).
\* ops: sequence of [o |-> "Node", x, gc, from] | [o |-> "KV", k, v, ver, st] | [o |-> "SetMax", max].
\* Returns [ok, delta] with delta a function member -> node-delta.  StrictSetMax = the decoder
\* refuses a SetMaxVersion op that follows key-values of the same member (fix F-3).
RECURSIVE DecodeFrom(_, _, _, _, _)
DecodeFrom(ops, i, acc, cur, strict) ==
  \* acc: delta so far; cur: <<>> or <<[x, nd]>> (the member being built)
  LET flush == IF cur = <<>> THEN acc ELSE Put(acc, cur[1].x, cur[1].nd) IN
  IF i > Len(ops) THEN [ok |-> TRUE, delta |-> flush]
  ELSE LET op == ops[i] IN
    IF op.o = "Node" THEN
      IF op.x \in DOMAIN flush THEN [ok |-> FALSE, delta |-> EmptyFn]
      ELSE DecodeFrom(ops, i + 1, flush,
                      <<[x |-> op.x, nd |-> [from |-> op.from, gc |-> op.gc, max |-> 0, kvs |-> <<>>]]>>, strict)
    ELSE IF cur = <<>> THEN [ok |-> FALSE, delta |-> EmptyFn]
    ELSE IF op.o = "KV" THEN
      IF ~(cur[1].nd.max < op.ver) THEN [ok |-> FALSE, delta |-> EmptyFn]
      ELSE DecodeFrom(ops, i + 1, acc,
             <<[x |-> cur[1].x,
                nd |-> [cur[1].nd EXCEPT !.max = op.ver,
                          !.kvs = Append(@, [k |-> op.k, v |-> op.v, ver |-> op.ver, st |-> op.st])]]>>, strict)
    ELSE \* SetMax
      IF strict /\ cur[1].nd.kvs # <<>> THEN [ok |-> FALSE, delta |-> EmptyFn]
      ELSE DecodeFrom(ops, i + 1, acc, <<[x |-> cur[1].x, nd |-> [cur[1].nd EXCEPT !.max = op.max]]>>, strict)

DecodeOps(ops, strict) == DecodeFrom(ops, 1, EmptyFn, <<>>, strict)

=================================================================================
