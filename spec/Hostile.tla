-------------------------------- MODULE Hostile --------------------------------
(***************************************************************************)
(* C09: Gossip + an adversary that delivers any DECODABLE datagram: any    *)
(* digest, any cluster id, any stream of syntactically valid operations in *)
(* semantically arbitrary order.  The decoder (DeltaBuilder::apply_op) and *)
(* every assertion on the processing path are transcribed, so TLC exhibits *)
(* the streams that abort a node.                                          *)
(***************************************************************************)
EXTENDS Gossip

CONSTANTS Victims,       \* nodes that receive hostile datagrams
          Members,       \* member names the adversary mentions (may include unknown ones)
          HKeys,         \* keys the adversary writes (may coincide with honest keys or not)
          HVals,         \* small naturals used for versions / watermarks / heartbeats
          MaxOps,        \* longest op stream
          MaxHostile,    \* hostile datagrams per behaviour
          WalkLen,       \* length at which a simulated walk is exported (simulation configs)
          MaxDepth,      \* longest behaviour explored (honest prefix + hostile datagrams)
          StrictSetMax   \* TRUE: decoder refuses SetMaxVersion after key-values (fix F-3)

VARIABLE hostile   \* number of hostile datagrams delivered
hvars == <<vars, hostile>>
HView == hvars

HInit == Init /\ hostile = 0

Ops == {[o |-> "Node", x |-> x, gc |-> g, from |-> f] : x \in Members, g \in HVals, f \in HVals}
       \cup {[o |-> "KV", k |-> k, v |-> v, ver |-> n, st |-> s] :
               k \in HKeys, v \in {"h"}, n \in HVals \ {0}, s \in {"Set", "Del"}}
       \cup {[o |-> "SetMax", max |-> n] : n \in HVals}
OpStreams == UNION {[1..n -> Ops] : n \in 0..MaxOps}

HDigests == {EmptyFn} \cup {[y \in {x} |-> [hb |-> h, gc |-> g, max |-> m]] :
                              x \in Members, h \in {1, 3}, g \in {0, 2}, m \in {0, 2}}

\* the adversary's datagram, as the wire carries it
HostileMsgs(n) ==
  {[t |-> "Ack", src |-> "h", dst |-> n, ops |-> s] : s \in OpStreams}
  \cup {[t |-> "SynAck", src |-> "h", dst |-> n, digest |-> d, ops |-> s] :
          d \in HDigests, s \in {s2 \in OpStreams : Len(s2) <= 2}}
  \cup {[t |-> "Syn", src |-> "h", dst |-> n, cluster |-> c, digest |-> d] :
          c \in {Cluster[n], "zz"}, d \in HDigests}
  \cup {[t |-> "Bad", src |-> "h", dst |-> n]}

\* UdpSocket::receive_one: an undecodable datagram is dropped before process_message
Inject(n, m) ==
  /\ hostile < MaxHostile
  /\ hostile' = hostile + 1
  /\ IF "ops" \in DOMAIN m
     THEN LET d == DecodeOps(m.ops, StrictSetMax) IN
          IF d.ok
          THEN LET m2 == IF m.t = "Ack" THEN [t |-> "Ack", src |-> m.src, dst |-> n, delta |-> d.delta]
                         ELSE [t |-> "SynAck", src |-> m.src, dst |-> n, digest |-> m.digest, delta |-> d.delta]
               IN ProcessMsgAs(n, m2, m)
          ELSE /\ UNCHANGED vars
               /\ Step([a |-> "Inject", n |-> n, msg |-> m, undecodable |-> TRUE])
     ELSE ProcessMsgAs(n, m, m)

HNext ==
  \/ (Next /\ UNCHANGED hostile)
  \/ \E n \in Victims : \E m \in HostileMsgs(n) : Inject(n, m)

HSpec == HInit /\ [][HNext]_<<hvars, hist>>
\* MaxDepth bounds the length of a behaviour (level = length + 1)
HBounded == Bounded /\ TLCGet("level") <= MaxDepth + 1

-------------------------------------------------------------------------------
\* C09: no decodable datagram aborts the node; frontiers stay monotonic (C04_Monotonic) and the
\* live/dead classification invariants (C12_Sets) survive.
C09_NoPanic == ~panic
C09_NoPanicStep ==
  [][ Resetting \/ (LastAct.a = "Inject" => "panic" \notin DOMAIN LastAct) ]_<<hvars, hist>>

\* simulation mode: one exported behaviour per random walk, printed when the walk reaches WalkLen
HEmitWalk == (Len(hist) = WalkLen) => PrintT("EDGE " \o ToJson([steps |-> hist, expect |-> [nodes |-> Views]]))
HEmitEdge == PrintT("EDGE " \o ToJson([steps |-> hist', expect |-> [nodes |-> Views']]))
===============================================================================
