--------------------------- MODULE ObserveAgreement ---------------------------
(* Verdict rule R2/R3 for the pair scope: the formulas of Agreement.tla evaluated on what the REAL
   sender and receiver did.  Each record of the input file is one observed case:
   s, r = the copies actually installed, observed = [status, c, nd, panic, cb]. *)
EXTENDS Agreement, IOUtils

Rec == ndJsonDeserialize(IOEnv.TRACE)

ObsInit == \E i \in 1..Len(Rec) :
             /\ s = Rec[i].real_s /\ r = Rec[i].real_r /\ b = Rec[i].b
             /\ done = TRUE /\ res = Rec[i].observed
ObsNext == UNCHANGED vars

C04_PairsNoPanic == res.status # "NoDelta" => ~res.panic
C20_PairsObs == res.status # "NoDelta" =>
                  /\ res.cb \in {0, 1}
                  /\ (res.cb = 1) <=> (res.c.gc > r.gc)
===============================================================================
