---------------------------- MODULE TraceDetector ----------------------------
(* Trace validation for heartbeat-arrival histories recorded on a real observer node:
   events Inject (a SYN digest carrying a heartbeat for "x"), Advance, Liveness. *)
EXTENDS Detector, IOUtils, TLCExt

Rec == ndJsonDeserialize(IOEnv.TRACE)
VARIABLE l
tvars == <<dvars, hist, l>>

TraceInit == DInit /\ l = 1
PostOk(e) == ViewOf(st'[e.n], e.n, clock') = e.post

TraceNext ==
  /\ l <= Len(Rec)
  /\ l' = l + 1
  /\ LET e == Rec[l] IN
     CASE e.a = "Reset" ->
            /\ st' = [n \in Node |-> InitNode(n)] /\ net' = {} /\ clock' = 0
            /\ ledger' = [n \in Node |-> <<>>] /\ mid' = [n \in Node |-> FALSE]
            /\ panic' = FALSE /\ hist' = <<>>
            /\ GhostReset
       [] e.a = "Inject"   -> Arrive(e.msg.digest[X].hb) /\ PostOk(e) /\ "panic" \notin DOMAIN e
       [] e.a = "Liveness" -> Evaluate /\ PostOk(e)
       [] e.a = "Advance"  -> Tick(e.d)
       [] OTHER -> FALSE

TraceSpec == TraceInit /\ [][TraceNext]_tvars
TraceView == <<dvars, l>>
TraceAccepted ==
  LET d == TLCGet("stats").diameter IN
  IF d - 1 = Len(Rec) THEN TRUE
  ELSE Print(<<"TRACE-REJECTED at event", d, Rec[d]>>, FALSE)
==============================================================================
