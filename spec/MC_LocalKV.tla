---- MODULE MC_LocalKV ----
EXTENDS LocalKV
MC_Keys == {"", "a", "ab", "b"}
MC_Prefixes == {"", "a", "ab", "b", "abc"}
MC_KeyChars == [k \in MC_Keys \cup MC_Prefixes |->
   CASE k = "" -> <<>> [] k = "a" -> <<1>> [] k = "ab" -> <<1, 2>> [] k = "b" -> <<2>>
     [] k = "abc" -> <<1, 2, 3>>]
MC_Vals == {"x", "y"}
====
