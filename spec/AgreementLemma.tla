--------------------------- MODULE AgreementLemma ---------------------------
(* The arithmetic core of C14 for ALL naturals (Agreement.tla checks it, with the key-values, for
   versions up to V): the sender's reset decision (state.rs compute_partial_delta_respecting_mtu) and
   the receiver's admission rule (check_delta_status) are two views of one predicate, so a delta
   computed from the receiver's own digest entry is never refused as inapplicable or from the
   future.  Checked by TLAPS (tlapm, SMT back end). *)
EXTENDS Naturals, TLAPS

\* sender copy (sgc, smax), receiver copy (rgc, rmax); digest entry = (rgc, rmax)
ShouldReset(sgc, rgc, rmax) == rgc < sgc /\ rmax < sgc
From(sgc, rgc, rmax) == IF ShouldReset(sgc, rgc, rmax) THEN 0 ELSE rmax
\* receiver side, for a node-delta [from, gc = sgc]
FromFuture(from, rmax) == from > rmax
Compatible(sgc, rgc, rmax) == sgc <= rgc \/ sgc <= rmax
Inapplicable(from, sgc, rgc, rmax) == ~Compatible(sgc, rgc, rmax) /\ from # 0
ResetOnReceipt(from, sgc, rgc, rmax) == ~Compatible(sgc, rgc, rmax) /\ from = 0

THEOREM Agree ==
  \A sgc, rgc, rmax \in Nat :
     /\ ShouldReset(sgc, rgc, rmax) <=> ~Compatible(sgc, rgc, rmax)
     /\ ~FromFuture(From(sgc, rgc, rmax), rmax)
     /\ ~Inapplicable(From(sgc, rgc, rmax), sgc, rgc, rmax)
     /\ ResetOnReceipt(From(sgc, rgc, rmax), sgc, rgc, rmax) <=> ShouldReset(sgc, rgc, rmax)
  BY DEF ShouldReset, From, FromFuture, Compatible, Inapplicable, ResetOnReceipt

\* a wiping reset strictly raises the watermark, an incremental apply that carries a higher max version
\* strictly raises the max version: the pair (watermark, max version) increases lexicographically
THEOREM Progress ==
  \A sgc, rgc, rmax, ndmax \in Nat :
     /\ ShouldReset(sgc, rgc, rmax) => sgc > rgc
     /\ (~ShouldReset(sgc, rgc, rmax) /\ ndmax > rmax) => ndmax > rmax
  BY DEF ShouldReset
=============================================================================
