SPECIFICATION TraceSpec
CONSTANTS
  Keys <- MC_Keys
  PrefixSet <- MC_Prefixes
  KeyChars <- MC_KeyChars
  Vals <- MC_Vals
  Grace = 2
  Advances = {1, 2}
  MaxLen = 1000000
VIEW TraceView
INVARIANT Inv
PROPERTIES GcExact WriteFresh DeleteAbsentNoop
POSTCONDITION TraceAccepted
CHECK_DEADLOCK FALSE
