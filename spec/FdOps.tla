-------------------------------- MODULE FdOps --------------------------------
(* The phi-accrual failure detector of failure_detector.rs in integer ticks.
   A sampling window is [win, last]: win = the last (at most Window) accepted inter-arrival
   intervals, last = tick of the last reported heartbeat (-1: none yet). *)
EXTENDS Integers, Sequences, NodeStateOps

CONSTANTS PhiN, PhiD,    \* phi threshold as the rational PhiN / PhiD
          Window,        \* sampling_window_size
          MaxInterval,   \* heartbeats further apart are not sampled
          Prior          \* initial_interval (prior mean, weight 5)

SeqSum(s) == IF s = <<>> THEN 0 ELSE
  LET RECURSIVE Sum(_) Sum(i) == IF i = 0 THEN 0 ELSE s[i] + Sum(i - 1) IN Sum(Len(s))

\* SamplingWindow::report_heartbeat
FdReport(fd, x, now) ==
  IF x \notin DOMAIN fd THEN Put(fd, x, [win |-> <<>>, last |-> now])
  ELSE LET w == fd[x]
           iv == now - w.last
           win2 == IF w.last >= 0 /\ iv <= MaxInterval
                   THEN (IF Len(w.win) >= Window THEN Append(Tail(w.win), iv) ELSE Append(w.win, iv))
                   ELSE w.win
       IN Put(fd, x, [win |-> win2, last |-> now])

\* is a / b exactly representable in binary floating point (b / gcd(a, b) a power of two)?
RECURSIVE Gcd(_, _)
Gcd(a, b) == IF b = 0 THEN a ELSE Gcd(b, a % b)
RECURSIVE IsPow2(_)
IsPow2(n) == IF n = 1 THEN TRUE ELSE IF n % 2 = 1 THEN FALSE ELSE IsPow2(n \div 2)
DyadicQuotient(a, b) == IsPow2(b \div Gcd(a, b))

\* phi <= threshold, by cross multiplication; "None" (no interval yet) counts as not alive.
\* Returns the set of admissible outcomes: exact equality with an inexact mean may round either way.
AliveOutcomes(fd, x, now) ==
  IF x \notin DOMAIN fd \/ fd[x].win = <<>> THEN {FALSE}
  ELSE LET w == fd[x]
           len == Len(w.win)
           sum == SeqSum(w.win)
           lhs == (now - w.last) * (len + 5) * PhiD
           rhs == PhiN * (sum + 5 * Prior)
       IN IF lhs < rhs THEN {TRUE}
          ELSE IF lhs > rhs THEN {FALSE}
          ELSE IF DyadicQuotient(sum + 5 * Prior, len + 5) THEN {TRUE} ELSE {TRUE, FALSE}


===============================================================================
