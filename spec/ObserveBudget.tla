------------------------------ MODULE ObserveBudget ------------------------------
(* C07 size half on the real code: records of a boundary-directed sweep (own digest length d close
   to the datagram limit, a member whose entries are sized around the remaining room) and of the
   replies seen in cluster runs: [d, total, delta] = digest bytes, datagram bytes, stream bytes. *)
EXTENDS Integers, Sequences, IOUtils, TLC, Json

Rec == ndJsonDeserialize(IOEnv.TRACE)
VARIABLE i
ObsInit == i \in 1..Len(Rec)
ObsNext == UNCHANGED i

Limit == 65507
Header == 4
\* the datagram fits one UDP payload; equivalently the stream fits the room the digest leaves
C07_ObservedFits ==
  /\ Rec[i].total <= Limit
  /\ Rec[i].total = Header + Rec[i].d + Rec[i].delta
  /\ Rec[i].delta <= Limit - Header - Rec[i].d
\* running out of space only cuts the tail: what is carried is a PREFIX of the sender's stale entries
C07_ObservedTail ==
  /\ Len(Rec[i].carried) <= Len(Rec[i].sender)
  /\ \A j \in 1..Len(Rec[i].carried) : Rec[i].carried[j] = Rec[i].sender[j]
==================================================================================
