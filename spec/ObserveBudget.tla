------------------------------ MODULE ObserveBudget ------------------------------
(* C07 size half on the real code: records of a boundary-directed sweep (own digest length d close
   to the datagram limit, a member whose entries are sized around the remaining room) and of the
   replies seen in cluster runs: [d, total, delta] = digest bytes, datagram bytes, stream bytes. *)
EXTENDS Integers, Sequences, IOUtils, TLC, Json

Rec == ndJsonDeserialize(IOEnv.TRACE)
VARIABLE i
ObsInit == i \in 1..Len(Rec)
ObsNext == UNCHANGED i

Limit == 65507
Header == 4
\* the datagram fits one UDP payload; equivalently the stream fits the room the digest leaves
C07_ObservedFits ==
  /\ Rec[i].total <= Limit
  /\ Rec[i].total = Header + Rec[i].d + Rec[i].delta
  /\ Rec[i].delta <= Limit - Header - Rec[i].d
\* running out of space only cuts the tail: what is carried is a PREFIX of the sender's stale entries
C07_ObservedTail ==
  /\ Len(Rec[i].carried) <= Len(Rec[i].sender)
  /\ \A j \in 1..Len(Rec[i].carried) : Rec[i].carried[j] = Rec[i].sender[j]
\* large-state sweep records: [mtu, len, members = <<[x, from, dmax, carried, sender, setmax]>>]
\* the delta fits the budget it was given; for every member it carries exactly the sender's entries
\* above the start version, in ascending order, as a prefix (only the tail can be missing) and only
\* the LAST member of a delta may be cut; the start version is 0 or the digest's max version
StaleOf(m) == SelectSeq(m.sender, LAMBDA v : v > m.from)
IsPrefixOf(a, b) == Len(a) <= Len(b) /\ \A j \in 1..Len(a) : a[j] = b[j]
C07_SweepOk ==
  LET r == Rec[i] IN
  /\ ~r.panic
  /\ r.len <= r.mtu
  /\ \A j \in 1..Len(r.members) :
       LET m == r.members[j] IN
       /\ m.from \in {0, m.dmax}
       /\ IsPrefixOf(m.carried, StaleOf(m))
       /\ (j < Len(r.members) => m.carried = StaleOf(m))
       /\ (m.setmax # -1 => (m.carried = <<>> /\ StaleOf(m) = <<>>))
  /\ \A j, k \in 1..Len(r.members) : j # k => r.members[j].x # r.members[k].x
==================================================================================
