------------------------------- MODULE Detector -------------------------------
(***************************************************************************)
(* C10 / C11: one observer node "n1", one observed member "x", heartbeats  *)
(* for x arriving in SYN digests relayed by arbitrary peers ("r").  Built  *)
(* on Gossip: an arrival is ProcessMsg of a crafted SYN, an evaluation is  *)
(* UpdateLiveness.  Ghost variables record what evidence was really        *)
(* available: the strictly increasing heartbeat values observed so far and *)
(* the tick of the last one.                                               *)
(***************************************************************************)
EXTENDS Gossip

CONSTANTS Heartbeats,   \* heartbeat values that may arrive
          MaxArrivals   \* bound on the number of arrivals (state constraint)

VARIABLES freshN,     \* number of strictly increasing heartbeat values observed for x
          freshAt,    \* tick of the last such observation (-1: none)
          topHb,      \* highest heartbeat value observed (0: none)
          arrivals,
          ftimes,     \* ticks of the most recent (at most Window + 2) fresh observations
          deadEval,   \* tick of the last evaluation that found x dead or unknown (-1: none)
          rep,        \* tick of the last heartbeat of x's current incarnation REPORTED to the detector (-1: none)
          usable,     \* usable intervals (two reported heartbeats at most MaxInterval apart) accepted since the
                      \* last evaluation that found x dead or unknown
          gwin        \* those intervals themselves (the last Window of them): the sampling window as the EVENTS
                      \* determine it -- reported heartbeats and evaluation verdicts only, no implementation state

dvars == <<vars, freshN, freshAt, topHb, arrivals, ftimes, deadEval, rep, usable, gwin>>
\* ftimes / deadEval are read by C11_SteadyObs only, which is evaluated on real traces (TraceDetector,
\* ObserveDetector), not in the exhaustive model runs: they stay out of the model's fingerprint
DView == <<vars, freshN, freshAt, topHb, arrivals>>

O == "n1"
X == "x"

GhostInit == freshN = 0 /\ freshAt = -1 /\ topHb = 0 /\ arrivals = 0 /\ ftimes = <<>> /\ deadEval = -1
             /\ rep = -1 /\ usable = 0 /\ gwin = <<>>
GhostReset == freshN' = 0 /\ freshAt' = -1 /\ topHb' = 0 /\ arrivals' = 0 /\ ftimes' = <<>> /\ deadEval' = -1
              /\ rep' = -1 /\ usable' = 0 /\ gwin' = <<>>
DInit == Init /\ GhostInit

PushTime(f, t) == IF Len(f) >= Window + 2 THEN Append(Tail(f), t) ELSE Append(f, t)
\* ghost updates shared by the model, the trace specification and the observer
GhostArrive(h, now) ==
  /\ freshN' = IF h > topHb THEN freshN + 1 ELSE freshN
  /\ freshAt' = IF h > topHb THEN now ELSE freshAt
  /\ topHb' = IF h > topHb THEN h ELSE topHb
  /\ arrivals' = arrivals + 1
  /\ ftimes' = IF h > topHb THEN PushTime(ftimes, now) ELSE ftimes
  /\ deadEval' = deadEval
  \* a heartbeat is reported to the detector iff the member's state exists with a non-zero heartbeat and
  \* the new value is strictly higher (the first heartbeat of an incarnation is recorded, not reported)
  /\ LET reported == X \in DOMAIN st[O].ns /\ st[O].ns[X].hb > 0 /\ h > st[O].ns[X].hb IN
     /\ rep' = IF reported THEN now ELSE rep
     /\ usable' = IF reported /\ rep >= 0 /\ now - rep <= MaxInterval THEN usable + 1 ELSE usable
     /\ gwin' = IF reported /\ rep >= 0 /\ now - rep <= MaxInterval
                THEN (IF Len(gwin) >= Window THEN Append(Tail(gwin), now - rep) ELSE Append(gwin, now - rep))
                ELSE gwin
GhostEval(now) ==
  /\ UNCHANGED <<freshN, freshAt, topHb, arrivals, ftimes>>
  /\ deadEval' = IF X \in st'[O].live THEN deadEval ELSE now
  /\ usable' = IF X \in st'[O].live THEN usable ELSE 0
  /\ gwin' = IF X \in st'[O].live THEN gwin ELSE <<>>
  /\ rep' = IF X \in DOMAIN st'[O].ns THEN rep ELSE -1
GhostSame == UNCHANGED <<freshN, freshAt, topHb, arrivals, ftimes, deadEval, rep, usable, gwin>>

SynFor(h) == [t |-> "Syn", src |-> "r", dst |-> O, cluster |-> Cluster[O],
              digest |-> [y \in {X} |-> [hb |-> h, gc |-> 0, max |-> 0]]]

\* a digest carrying heartbeat h for x reaches the observer; the reply is dropped by the network
Arrive(h) ==
  /\ LET s1 == ReportDigest(BumpHb(st[O], O), O, SynFor(h).digest, clock) IN
     st' = [st EXCEPT ![O] = s1]
  /\ GhostArrive(h, clock)
  /\ UNCHANGED <<net, clock, ledger, mid, panic>>
  /\ Step([a |-> "Inject", n |-> O, msg |-> SynFor(h)])

Evaluate == UpdateLiveness(O) /\ GhostEval(clock)
Tick(d)  == Advance(d) /\ GhostSame

DNext == (\E h \in Heartbeats : Arrive(h)) \/ Evaluate \/ (\E d \in Advances : Tick(d))
DSpec == DInit /\ [][DNext]_<<dvars, hist>>

DBounded == arrivals <= MaxArrivals /\ clock <= MaxClock

-------------------------------------------------------------------------------
IsLive == X \in st[O].live
IsDead == X \in DOMAIN st[O].dead
IsLive2 == X \in st'[O].live
IsDead2 == X \in DOMAIN st'[O].dead
EvalNow == LastAct.a = "Liveness"

MaxI == IF MaxInterval > Prior THEN MaxInterval ELSE Prior

\* C10 (completeness with bounded delay): after an evaluation, a member silent for longer than
\* phi x max(max_interval, initial_interval) is dead and not live
C10_Complete ==
  [][ Resetting \/ (EvalNow /\ X \in DOMAIN st[O].ns =>
        ((freshAt < 0 \/ (clock - freshAt) * PhiD > PhiN * MaxI) => (~IsLive2 /\ (IsDead2 \/ X \notin DOMAIN st'[O].ns)))) ]_<<dvars, hist>>
\* fewer than two usable observations: never live
C10_TwoObservations == freshN < 2 => ~IsLive
\* ... sharpened: "usable" observations are those of the current window epoch -- every evaluation that finds
\* the member dead starts a fresh sampling window, so a live member has at least one interval between two
\* reported heartbeats at most MaxInterval apart that was accepted after the last such evaluation
C10_UsableEvidence == IsLive => usable >= 1

\* C11 (i) live needs two strictly increasing heartbeat values (same ghost, stated for C11)
C11_NeedsEvidence == IsLive => freshN >= 2
\* C11 (ii) equal / lower / replayed heartbeats are not evidence: nothing but the observer's own
\* heartbeat changes
C11_StaleIgnored ==
  [][ Resetting \/ ((LastAct.a = "Inject" /\ freshN' = freshN /\ X \in DOMAIN st[O].ns) =>
        /\ st'[O].fd = st[O].fd /\ st'[O].live = st[O].live /\ st'[O].dead = st[O].dead
        /\ st'[O].ns[X] = st[O].ns[X]) ]_<<dvars, hist>>
\* C11 (iii) steady heartbeats are never flagged: all sampled intervals >= a, silence and intervals
\* <= b <= max_interval, and phi >= b / min(a, initial_interval)
C11_Steady ==
  [][ Resetting \/ ((EvalNow /\ X \in DOMAIN st[O].fd /\ st[O].fd[X].win # <<>>) =>
        LET w == st[O].fd[X]
            a == MinOf({w.win[i] : i \in 1..Len(w.win)})
            b == MaxOf({w.win[i] : i \in 1..Len(w.win)} \cup {clock - w.last})
            m == IF a < Prior THEN a ELSE Prior
        IN (b <= MaxInterval /\ PhiN * m >= PhiD * b) => IsLive2) ]_<<dvars, hist>>

\* C11 (iii) stated on observable evidence only: gwin is the sampling window as the logged events determine it
\* (intervals between REPORTED heartbeats at most max_interval apart, the last Window of them, emptied by every
\* evaluation that finds the member dead), rep the tick of the last reported heartbeat.  All intervals in
\* [a, b], silence <= b <= max_interval and phi >= b / min(a, initial_interval)  ==>  live after this evaluation
Gaps == {ftimes[i + 1] - ftimes[i] : i \in 1..(Len(ftimes) - 1)}
C11_SteadyObs ==
  [][ Resetting \/ ((EvalNow /\ gwin # <<>> /\ rep >= 0) =>
        LET ivs == {gwin[i] : i \in 1..Len(gwin)}
            a == MinOf(ivs)
            b == MaxOf(ivs \cup {clock - rep})
            m == IF a < Prior THEN a ELSE Prior
        IN (b <= MaxInterval /\ PhiN * m >= PhiD * b) => IsLive2) ]_<<dvars, hist>>

DEmitEdge == PrintT("EDGE " \o ToJson([steps |-> hist', expect |-> [nodes |-> Views']]))
===============================================================================
