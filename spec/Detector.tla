------------------------------- MODULE Detector -------------------------------
(***************************************************************************)
(* C10 / C11: one observer node "n1", one observed member "x", heartbeats  *)
(* for x arriving in SYN digests relayed by arbitrary peers ("r").  Built  *)
(* on Gossip: an arrival is ProcessMsg of a crafted SYN, an evaluation is  *)
(* UpdateLiveness.  Ghost variables record what evidence was really        *)
(* available: the strictly increasing heartbeat values observed so far and *)
(* the tick of the last one.                                               *)
(***************************************************************************)
EXTENDS Gossip

CONSTANTS Heartbeats,   \* heartbeat values that may arrive
          MaxArrivals   \* bound on the number of arrivals (state constraint)

VARIABLES freshN,     \* number of strictly increasing heartbeat values observed for x
          freshAt,    \* tick of the last such observation (-1: none)
          topHb,      \* highest heartbeat value observed (0: none)
          arrivals

dvars == <<vars, freshN, freshAt, topHb, arrivals>>
DView == dvars

O == "n1"
X == "x"

DInit == Init /\ freshN = 0 /\ freshAt = -1 /\ topHb = 0 /\ arrivals = 0

SynFor(h) == [t |-> "Syn", src |-> "r", dst |-> O, cluster |-> Cluster[O],
              digest |-> [y \in {X} |-> [hb |-> h, gc |-> 0, max |-> 0]]]

\* a digest carrying heartbeat h for x reaches the observer; the reply is dropped by the network
Arrive(h) ==
  /\ LET s1 == ReportDigest(BumpHb(st[O], O), O, SynFor(h).digest, clock) IN
     st' = [st EXCEPT ![O] = s1]
  /\ freshN' = IF h > topHb THEN freshN + 1 ELSE freshN
  /\ freshAt' = IF h > topHb THEN clock ELSE freshAt
  /\ topHb' = IF h > topHb THEN h ELSE topHb
  /\ arrivals' = arrivals + 1
  /\ UNCHANGED <<net, clock, ledger, mid, panic>>
  /\ Step([a |-> "Inject", n |-> O, msg |-> SynFor(h)])

Evaluate == UpdateLiveness(O) /\ UNCHANGED <<freshN, freshAt, topHb, arrivals>>
Tick(d)  == Advance(d) /\ UNCHANGED <<freshN, freshAt, topHb, arrivals>>

DNext == (\E h \in Heartbeats : Arrive(h)) \/ Evaluate \/ (\E d \in Advances : Tick(d))
DSpec == DInit /\ [][DNext]_<<dvars, hist>>

DBounded == arrivals <= MaxArrivals /\ clock <= MaxClock

-------------------------------------------------------------------------------
IsLive == X \in st[O].live
IsDead == X \in DOMAIN st[O].dead
IsLive2 == X \in st'[O].live
IsDead2 == X \in DOMAIN st'[O].dead
EvalNow == LastAct.a = "Liveness"

MaxI == IF MaxInterval > Prior THEN MaxInterval ELSE Prior

\* C10 (completeness with bounded delay): after an evaluation, a member silent for longer than
\* phi x max(max_interval, initial_interval) is dead and not live
C10_Complete ==
  [][ Resetting \/ (EvalNow /\ X \in DOMAIN st[O].ns =>
        ((freshAt < 0 \/ (clock - freshAt) * PhiD > PhiN * MaxI) => (~IsLive2 /\ (IsDead2 \/ X \notin DOMAIN st'[O].ns)))) ]_dvars
\* fewer than two usable observations: never live
C10_TwoObservations == freshN < 2 => ~IsLive

\* C11 (i) live needs two strictly increasing heartbeat values (same ghost, stated for C11)
C11_NeedsEvidence == IsLive => freshN >= 2
\* C11 (ii) equal / lower / replayed heartbeats are not evidence: nothing but the observer's own
\* heartbeat changes
C11_StaleIgnored ==
  [][ Resetting \/ ((LastAct.a = "Inject" /\ freshN' = freshN /\ X \in DOMAIN st[O].ns) =>
        /\ st'[O].fd = st[O].fd /\ st'[O].live = st[O].live /\ st'[O].dead = st[O].dead
        /\ st'[O].ns[X] = st[O].ns[X]) ]_dvars
\* C11 (iii) steady heartbeats are never flagged: all sampled intervals >= a, silence and intervals
\* <= b <= max_interval, and phi >= b / min(a, initial_interval)
C11_Steady ==
  [][ Resetting \/ ((EvalNow /\ X \in DOMAIN st[O].fd /\ st[O].fd[X].win # <<>>) =>
        LET w == st[O].fd[X]
            a == MinOf({w.win[i] : i \in 1..Len(w.win)})
            b == MaxOf({w.win[i] : i \in 1..Len(w.win)} \cup {clock - w.last})
            m == IF a < Prior THEN a ELSE Prior
        IN (b <= MaxInterval /\ PhiN * m >= PhiD * b) => IsLive2) ]_dvars

DEmitEdge == PrintT("EDGE " \o ToJson([steps |-> hist', expect |-> [nodes |-> Views']]))
===============================================================================
