---------------------------- MODULE TraceLocalKV ----------------------------
(* Trace validation for C06: every recorded call on the real node's own namespace must be a step
   of LocalKV with exactly the reads the reference predicts.  Several traces are concatenated,
   separated by "Reset" events. *)
EXTENDS LocalKV, IOUtils, TLCExt

Rec == ndJsonDeserialize(IOEnv.TRACE)

VARIABLE l
tvars == <<vars, hist, l>>

TraceInit == Init /\ l = 1

ReadsMatch(e) == Reads(c') = e.reads

TraceNext ==
  /\ l <= Len(Rec)
  /\ l' = l + 1
  /\ LET e == Rec[l] IN
     CASE e.a = "Reset"     -> c' = NewCopy /\ clock' = 0 /\ hist' = <<>>
       [] e.a = "Set"       -> Set(e.k, e.v) /\ ReadsMatch(e)
       [] e.a = "SetTtl"    -> SetTtl(e.k, e.v) /\ ReadsMatch(e)
       [] e.a = "Delete"    -> Delete(e.k) /\ ReadsMatch(e)
       [] e.a = "DeleteTtl" -> DeleteTtl(e.k) /\ ReadsMatch(e)
       [] e.a = "Advance"   -> Advance(e.d) /\ ReadsMatch(e)
       [] e.a = "Gc"        -> Gc /\ ReadsMatch(e)
       [] OTHER             -> FALSE

TraceSpec == TraceInit /\ [][TraceNext]_tvars

TraceView == <<vars, l>>

\* acceptance: the whole file was consumed; otherwise print the first unmatched event
TraceAccepted ==
  LET d == TLCGet("stats").diameter IN
  IF d - 1 = Len(Rec) THEN TRUE
  ELSE Print(<<"TRACE-REJECTED at event", d, Rec[d]>>, FALSE)
==============================================================================
