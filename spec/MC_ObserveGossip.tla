---- MODULE MC_ObserveGossip ----
EXTENDS ObserveGossip
MC_Node == {"n1", "n2", "n3", "n4", "n5", "n1~1", "n2~1"}
MC_Cluster == [n \in Node |-> "c"]
MC_ClusterSplit == [n \in Node |-> IF n = "n3" THEN "C" ELSE "c"]
MC_Cluster5 == [n \in Node |-> CASE n = "n3" -> "C" [] n = "n4" -> "cc" [] n = "n5" -> "" [] OTHER -> "c"]
MC_Addr == [n \in Node |-> IF n = "n1~1" THEN "n1" ELSE IF n = "n2~1" THEN "n2" ELSE n]
====
