---- MODULE MC_ObserveGossip ----
EXTENDS ObserveGossip
MC_Node == {"n1", "n2", "n3", "n4", "n5"}
MC_Cluster == [n \in Node |-> "c"]
====
