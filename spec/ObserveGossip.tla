---------------------------- MODULE ObserveGossip ----------------------------
(* Observer (verdict rule R2): evaluates the property formulas of Gossip on a REAL execution.
   State variables are bound to the logged projected states (no Gossip action constrains them);
   ghost variables (ledger of owner writes, the mid-reset flag, in-flight messages, panic flag)
   are advanced from the logged events.  A formula that fails here fails on the real code. *)
EXTENDS Gossip, IOUtils, TLCExt

Rec == ndJsonDeserialize(IOEnv.TRACE)

VARIABLES l, evid,
          snap   \* global state at the start of the handshake in progress (events flagged hs)
ovars == <<vars, hist, l, snap, evid>>

ObsInit == Init /\ l = 1 /\ snap = st /\ evid = [n \in Node |-> [x \in Node |-> 0]]

HasF(e, f) == f \in DOMAIN e

\* old = the node's previous observed state, e = the event.  Ghost fields derived from the log:
\*   dead[x] = clock of the evaluation at which x was first seen dead (the dead set changes only
\*             inside update_nodes_liveness, whose post-state is logged);
\*   gcd[x]  = heartbeat x had when its state disappeared in an evaluation (cleared on re-creation);
\*   prev    = (live members -> max version) at the last evaluation.
FromPost(old, e, n) ==
  LET p == e.post
      live2 == (DOMAIN p.live) \ {n}
      removed == IF e.a = "Liveness" THEN (DOMAIN old.ns) \ (DOMAIN p.ns) ELSE {}
      gcd1 == [x \in ((DOMAIN old.gcd) \cup removed) \ (DOMAIN p.ns) |->
                 IF x \in removed THEN old.ns[x].hb ELSE old.gcd[x]]
  IN [ns |-> p.ns, gcd |-> gcd1, fd |-> EmptyFn,
      live |-> live2,
      dead |-> [x \in DOMAIN p.dead |-> IF x \in DOMAIN old.dead THEN old.dead[x] ELSE e.clock],
      prev |-> IF e.a = "Liveness"
               THEN [x \in (live2 \cup {n}) \cap DOMAIN p.ns |-> p.ns[x].max] ELSE old.prev,
      watch |-> p.watch, wseq |-> p.wseq, cb |-> p.cb, sched |-> DOMAIN p.sched]

\* members for which this Process step applied an incremental delta to a mid-reset copy
MidSet(n, m) ==
  IF ~HasF(m, "delta") THEN {}
  ELSE {x \in (DOMAIN m.delta) \cap (DOMAIN st[n].ns) :
          LET c == st[n].ns[x]  nd == m.delta[x] IN
          CheckDelta(c, nd) = "Apply" /\ c.gc > c.max /\ nd.gc < c.gc}

ObsStep ==
  /\ l <= Len(Rec)
  /\ l' = l + 1
  /\ LET e == Rec[l] IN
     IF e.a = "Reset" THEN
        /\ st' = [n \in Node |-> InitNode(n)] /\ net' = {} /\ clock' = 0
        /\ ledger' = [n \in Node |-> <<>>] /\ mid' = [n \in Node |-> FALSE]
        /\ panic' = FALSE /\ hist' = <<>> /\ snap' = [n \in Node |-> InitNode(n)]
     ELSE
        /\ snap' = IF HasF(e, "hs") /\ e.hs.k = 1 THEN st ELSE snap
        /\ hist' = <<l, e>>
        /\ clock' = e.clock
        /\ st' = IF HasF(e, "post") THEN [st EXCEPT ![e.n] = FromPost(st[e.n], e, e.n)] ELSE st
        /\ net' = IF HasF(e, "out") THEN net \cup {e.out} ELSE net
        /\ panic' = (panic \/ (e.a = "Process" /\ HasF(e, "panic")))
        /\ mid' = IF e.a = "Process" /\ HasF(e, "msg")
                  THEN [x \in Node |-> mid[x] \/ x \in MidSet(e.n, e.msg)] ELSE mid
        /\ ledger' =
             IF e.a \in {"Set", "SetTtl", "Delete", "DeleteTtl"} /\ HasF(e, "post")
             THEN LET c1 == st[e.n].ns[e.n]  c2 == e.post.ns[e.n] IN
                  IF c2.max > c1.max /\ e.k \in DOMAIN c2.kv
                  THEN [ledger EXCEPT ![e.n] = Append(@, [k |-> e.k, v |-> c2.kv[e.k].val,
                                     ver |-> c2.kv[e.k].ver, st |-> c2.kv[e.k].st])]
                  ELSE ledger
             ELSE ledger

\* C01 progress on a real complete handshake a -> b (events flagged hs.k = 1..4): if either side held
\* newer deliverable data at its start, some copy at a or b strictly advanced (or KF-2's shape applies)
C01_ProgressObs ==
  [][ (l <= Len(Rec) /\ HasF(Rec[l], "hs") /\ Rec[l].hs.k = 4) =>
        LET a == Rec[l].hs.a  b == Rec[l].hs.b  now == Rec[l].clock IN
        (Deliverable(snap, a, b, now) \/ Deliverable(snap, b, a, now)) =>
           (Advanced(snap, st', a) \/ Advanced(snap, st', b) \/ Hogged(snap, a, b, now) \/ Hogged(snap, b, a, now)) ]_ovars

C01_ProgressObsStrict ==
  [][ (l <= Len(Rec) /\ HasF(Rec[l], "hs") /\ Rec[l].hs.k = 4) =>
        LET a == Rec[l].hs.a  b == Rec[l].hs.b  now == Rec[l].clock IN
        (Deliverable(snap, a, b, now) \/ Deliverable(snap, b, a, now)) =>
           (Advanced(snap, st', a) \/ Advanced(snap, st', b)) ]_ovars

HbOf(s, x) == IF x \in DOMAIN s.ns THEN s.ns[x].hb ELSE 0
ObsNext ==
  /\ ObsStep
  /\ evid' = IF Rec[l].a = "Reset" THEN [n \in Node |-> [x \in Node |-> 0]]
             ELSE [n \in Node |-> [x \in Node |-> evid[n][x] + (IF HbOf(st'[n], x) > HbOf(st[n], x) THEN 1 ELSE 0)]]
C18_LiveNeedsHeartbeats == \A n \in Node : \A x \in st[n].live : evid[n][x] >= 2

ObsSpec == ObsInit /\ [][ObsNext]_ovars
ObsView == <<vars, l, snap, evid>>

ObsDone ==
  LET d == TLCGet("stats").diameter IN
  IF d - 1 = Len(Rec) THEN TRUE ELSE Print(<<"OBSERVE-INCOMPLETE at event", d>>, FALSE)
\* C07 (size half, observed): no produced datagram exceeds the UDP payload limit
C07_Size == [][ (l <= Len(Rec) /\ "outlen" \in DOMAIN Rec[l]) => Rec[l].outlen <= 65507 ]_ovars
\* C03 on real traces: no node ever knows a member under an identity nobody uses (honest scenarios only:
\* every identity on the wire is one of the configured nodes, so a copy filed under another name was invented
\* by an encode / decode round trip or by cross-wiring)
C03_KnownMembers == \A n \in Node : DOMAIN st[n].ns \subseteq Node
=============================================================================
