SPECIFICATION Spec
CONSTANTS
  Keys <- MC_Keys
  PrefixSet <- MC_Prefixes
  KeyChars <- MC_KeyChars
  Vals <- MC_Vals
  Grace = 2
  Advances = {1, 2}
  MaxLen = 6
VIEW View
INVARIANT Inv
PROPERTIES GcExact WriteFresh DeleteAbsentNoop
CONSTRAINT Bound
ACTION_CONSTRAINT EmitEdge
CHECK_DEADLOCK FALSE
