----------------------------- MODULE TraceGossip -----------------------------
(* Trace validation (code -> spec) for the cluster: each recorded call on a real node must be
   the corresponding Gossip action with the logged arguments, must produce exactly the logged
   reply, and must leave the acting node in exactly the logged projected state.  Unobservable
   variables (detector windows, death times, removed-member memory, previous live set) are
   inferred by TLC through the actions.  Messages stay in `net` forever (any redelivery order is
   admissible); `Reset` events separate concatenated traces.  All invariants and action
   properties of Gossip are evaluated on every step of every real execution. *)
EXTENDS Gossip, IOUtils, TLCExt

Rec == ndJsonDeserialize(IOEnv.TRACE)

VARIABLES l,
          evid   \* evid[n][x]: how many times the heartbeat n stores for x increased (the only events that feed the detector)
tvars == <<vars, hist, l, evid>>

TraceInit == Init /\ l = 1 /\ evid = [n \in Node |-> [x \in Node |-> 0]]

Has2(e, f) == f \in DOMAIN e
LastStep == hist'[Len(hist')]

\* (server-level traces log the state only at the end of a round: intermediate events carry no post)
PostOk(e) == Has2(e, "post") => ViewOf(st'[e.n], e.n, clock') = e.post
OutOk(e) == IF Has2(e, "out") THEN Has2(LastStep, "out") /\ LastStep.out = e.out
            ELSE ~Has2(LastStep, "out")

TraceStep ==
  /\ l <= Len(Rec)
  /\ l' = l + 1
  /\ LET e == Rec[l] IN
     CASE e.a = "Reset" ->
            /\ st' = [n \in Node |-> InitNode(n)] /\ net' = {} /\ clock' = 0
            /\ ledger' = [n \in Node |-> <<>>] /\ mid' = [n \in Node |-> FALSE]
            /\ panic' = FALSE /\ hist' = <<>>
       [] e.a \in {"Set", "SetTtl", "Delete", "DeleteTtl"} ->
            ApiWrite(e.n, e.a, e.k, e.v) /\ PostOk(e)
       [] e.a = "Heartbeat" -> Heartbeat(e.n) /\ PostOk(e)
       [] e.a = "Gc"        -> GcKeys(e.n) /\ PostOk(e)
       [] e.a = "Liveness"  -> UpdateLiveness(e.n) /\ PostOk(e)
       [] e.a = "Advance"   -> Advance(e.d)
       [] e.a = "CreateSyn" -> CreateSyn(e.n, e.to) /\ OutOk(e) /\ PostOk(e)
       [] e.a = "Process"   -> Process(e.n, e.msg, TRUE) /\ OutOk(e) /\ PostOk(e) /\ ~Has2(e, "panic")
       [] e.a = "Catchup"   -> Catchup(e.n, e.x, e.kvs, e.max, e.gc) /\ PostOk(e)
                               /\ (Has2(e, "panic") <=> (panic' /\ ~panic))
       [] e.a = "FairEnd"   -> UNCHANGED vars /\ hist' = Append(hist, [a |-> "FairEnd", n |-> ""])
       [] OTHER -> FALSE

HbOf(s, x) == IF x \in DOMAIN s.ns THEN s.ns[x].hb ELSE 0
TraceNext ==
  /\ TraceStep
  /\ evid' = IF Rec[l].a = "Reset" THEN [n \in Node |-> [x \in Node |-> 0]]
             ELSE [n \in Node |-> [x \in Node |-> evid[n][x] + (IF HbOf(st'[n], x) > HbOf(st[n], x) THEN 1 ELSE 0)]]
\* C18 (never live by catch-up alone) / C11 at cluster level: only increases of the stored heartbeat feed
\* the detector, and a member needs two of them before it can be live
C18_LiveNeedsHeartbeats == \A n \in Node : \A x \in st[n].live : evid[n][x] >= 2

TraceSpec == TraceInit /\ [][TraceNext]_tvars
TraceView == <<vars, l, evid>>

TraceAccepted ==
  LET d == TLCGet("stats").diameter IN
  IF d - 1 = Len(Rec) THEN TRUE
  ELSE Print(<<"TRACE-REJECTED at event", d, Rec[d]>>, FALSE)
\* C07 (size half, observed): no produced datagram exceeds the UDP payload limit
C07_Size == [][ (l <= Len(Rec) /\ "outlen" \in DOMAIN Rec[l]) => Rec[l].outlen <= 65507 ]_tvars
\* C03 on real traces: no node ever knows a member under an identity nobody uses (honest scenarios only:
\* every identity on the wire is one of the configured nodes, so a copy filed under another name was invented
\* by an encode / decode round trip or by cross-wiring)
C03_KnownMembers == \A n \in Node : DOMAIN st[n].ns \subseteq Node
=============================================================================
