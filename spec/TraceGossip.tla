----------------------------- MODULE TraceGossip -----------------------------
(* Trace validation (code -> spec) for the cluster: each recorded call on a real node must be
   the corresponding Gossip action with the logged arguments, must produce exactly the logged
   reply, and must leave the acting node in exactly the logged projected state.  Unobservable
   variables (detector windows, death times, removed-member memory, previous live set) are
   inferred by TLC through the actions.  Messages stay in `net` forever (any redelivery order is
   admissible); `Reset` events separate concatenated traces.  All invariants and action
   properties of Gossip are evaluated on every step of every real execution. *)
EXTENDS Gossip, IOUtils, TLCExt

Rec == ndJsonDeserialize(IOEnv.TRACE)

VARIABLE l
tvars == <<vars, hist, l>>

TraceInit == Init /\ l = 1

Has2(e, f) == f \in DOMAIN e
LastStep == hist'[Len(hist')]

\* (server-level traces log the state only at the end of a round: intermediate events carry no post)
PostOk(e) == Has2(e, "post") => ViewOf(st'[e.n], e.n, clock') = e.post
OutOk(e) == IF Has2(e, "out") THEN Has2(LastStep, "out") /\ LastStep.out = e.out
            ELSE ~Has2(LastStep, "out")

TraceNext ==
  /\ l <= Len(Rec)
  /\ l' = l + 1
  /\ LET e == Rec[l] IN
     CASE e.a = "Reset" ->
            /\ st' = [n \in Node |-> InitNode(n)] /\ net' = {} /\ clock' = 0
            /\ ledger' = [n \in Node |-> <<>>] /\ mid' = [n \in Node |-> FALSE]
            /\ panic' = FALSE /\ hist' = <<>>
       [] e.a \in {"Set", "SetTtl", "Delete", "DeleteTtl"} ->
            ApiWrite(e.n, e.a, e.k, e.v) /\ PostOk(e)
       [] e.a = "Heartbeat" -> Heartbeat(e.n) /\ PostOk(e)
       [] e.a = "Gc"        -> GcKeys(e.n) /\ PostOk(e)
       [] e.a = "Liveness"  -> UpdateLiveness(e.n) /\ PostOk(e)
       [] e.a = "Advance"   -> Advance(e.d)
       [] e.a = "CreateSyn" -> CreateSyn(e.n, e.to) /\ OutOk(e) /\ PostOk(e)
       [] e.a = "Process"   -> Process(e.n, e.msg, TRUE) /\ OutOk(e) /\ PostOk(e) /\ ~Has2(e, "panic")
       [] e.a = "Catchup"   -> Catchup(e.n, e.x, e.kvs, e.max, e.gc) /\ PostOk(e)
                               /\ (Has2(e, "panic") <=> (panic' /\ ~panic))
       [] e.a = "FairEnd"   -> UNCHANGED vars /\ hist' = Append(hist, [a |-> "FairEnd", n |-> ""])
       [] OTHER -> FALSE

TraceSpec == TraceInit /\ [][TraceNext]_tvars
TraceView == <<vars, l>>

TraceAccepted ==
  LET d == TLCGet("stats").diameter IN
  IF d - 1 = Len(Rec) THEN TRUE
  ELSE Print(<<"TRACE-REJECTED at event", d, Rec[d]>>, FALSE)
\* C07 (size half, observed): no produced datagram exceeds the UDP payload limit
C07_Size == [][ (l <= Len(Rec) /\ "outlen" \in DOMAIN Rec[l]) => Rec[l].outlen <= 65507 ]_tvars
==============================================================================
