------------------------------ MODULE Agreement ------------------------------
(***************************************************************************)
(* C14 (and the static halves of C04 and C20): one sender copy, one        *)
(* receiver copy of the same member, one truncation point.  Every          *)
(* well-formed pair within the bounds is an initial state; the single      *)
(* action is "sender computes the delta from the receiver's digest entry,  *)
(* receiver applies it".  The pair is replayed on two real nodes.          *)
(***************************************************************************)
EXTENDS NodeStateOps, Json

CONSTANTS V,        \* versions and watermarks range over 0..V
          KeysS,    \* keys the sender copy may hold
          KeysR     \* keys the receiver copy may hold

VARIABLES s, r, b, done, res
vars == <<s, r, b, done, res>>

Statuses == {"Set", "Del", "Ttl"}

\* all copies [hb, max, gc, kv] with max, gc in 0..V over the given keys, well-formed in the sense
\* of Gossip!WellFormed + NoStaleTombstones: versions distinct, within 1..max, marked entries
\* above the watermark.  (gc > max allowed: mid-reset copies.)
KvsOver(D, m, g) ==
  {f \in [D -> [ver : 1..m, st : Statuses]] :
     /\ \A j, k \in D : j # k => f[j].ver # f[k].ver
     /\ \A k \in D : f[k].st # "Set" => f[k].ver > g}
Copies(K) ==
  UNION {UNION {UNION {
    {[hb |-> 0, max |-> m, gc |-> g,
      kv |-> [k \in D |-> Entry(IF f[k].st = "Del" THEN "" ELSE "a", f[k].ver, f[k].st, 0)]]
       : f \in KvsOver(D, m, g)}
    : D \in SUBSET K} : m \in 0..V} : g \in 0..V}

\* sender side, budget = number of key-values that fit (every truncation point)
NodeDelta(c, dg, budget) ==
  LET from == FromVersion(c, dg)
      ks == SortByVer(c, StaleKeys(c, from))
      n == IF budget < Len(ks) THEN budget ELSE Len(ks)
      kvs == [j \in 1..n |-> KvMutation(c, ks[j])]
  IN [from |-> from, gc |-> c.gc, kvs |-> kvs,
      max |-> IF n > 0 THEN kvs[n].ver ELSE IF Len(ks) = 0 THEN c.max ELSE 0]

Init ==
  /\ s \in Copies(KeysS)
  /\ r \in Copies(KeysR)
  /\ b \in 0..Cardinality(KeysS)
  /\ b <= Cardinality(DOMAIN s.kv)
  /\ done = FALSE
  /\ res = [status |-> "none"]

Dg == [gc |-> r.gc, max |-> r.max]

Exchange ==
  /\ ~done
  /\ done' = TRUE
  /\ UNCHANGED <<s, r, b>>
  /\ IF ~IsStale(s, Dg)
     THEN res' = [status |-> "NoDelta", c |-> r]
     ELSE LET nd == NodeDelta(s, Dg, b)
              a == ApplyNodeDelta(r, nd, 0)
          IN res' = [status |-> a.status, c |-> a.c, nd |-> nd, panic |-> a.panic]

Next == Exchange
Spec == Init /\ [][Next]_vars

-------------------------------------------------------------------------------
\* C14
ResetDue == r.max < s.gc /\ r.gc < s.gc
LexGt(c2, c1) == c2.gc > c1.gc \/ (c2.gc = c1.gc /\ c2.max > c1.max)
LexGe2(c2, c1) == c2.gc > c1.gc \/ (c2.gc = c1.gc /\ c2.max >= c1.max)
SomethingFit == res.nd.kvs # <<>> \/ StaleKeys(s, res.nd.from) = {}

C14_Agreement ==
  done =>
    /\ (s.max > r.max) <=> (res.status # "NoDelta")
    /\ res.status # "NoDelta" =>
         /\ res.nd.from = (IF ResetDue THEN 0 ELSE r.max)
         /\ ~res.panic
         \* never refused as inapplicable / from the future; refused only as "no news" when the
         \* budget did not let a single key-value through
         /\ (ResetDue => res.status = "Reset")
         /\ (~ResetDue /\ SomethingFit => res.status = "Apply")
         /\ (~ResetDue /\ ~SomethingFit => res.status = "Reject" /\ res.c = r)
         /\ (res.status \in {"Apply", "Reset"} => LexGt(res.c, r))
         /\ (res.status = "Reset" <=> ResetDue)

\* C04 static: no pair lowers the frontier or a key version (except a reset raising the watermark)
C04_Pairs ==
  done /\ res.status # "NoDelta" =>
    /\ LexGe2(res.c, r)
    /\ \A k \in (DOMAIN r.kv) \cap (DOMAIN res.c.kv) :
         res.c.kv[k].ver >= r.kv[k].ver \/ res.c.gc > r.gc

\* C20 static: the callback must fire iff the watermark strictly increased
C20_Pairs == done /\ res.status # "NoDelta" => ((res.status = "Reset") <=> (res.c.gc > r.gc))

\* what was delivered is exactly the sender's entries in (from, nd.max], ascending (C07 structural)
C07_Range ==
  done /\ res.status # "NoDelta" =>
    LET nd == res.nd IN
    /\ \A i \in 1..Len(nd.kvs) :
         /\ nd.kvs[i].ver > nd.from
         /\ nd.kvs[i].k \in DOMAIN s.kv /\ s.kv[nd.kvs[i].k].ver = nd.kvs[i].ver
         /\ i > 1 => nd.kvs[i - 1].ver < nd.kvs[i].ver
    /\ {s.kv[k].ver : k \in {k \in DOMAIN s.kv : s.kv[k].ver > nd.from /\ s.kv[k].ver <= nd.max}}
         = {nd.kvs[i].ver : i \in 1..Len(nd.kvs)}

EmitEdge == PrintT("EDGE " \o ToJson([s |-> s, r |-> r, b |-> b, expect |-> res']))
===============================================================================
