INIT ObsInit
NEXT ObsNext
CONSTANTS
  AddrSeq <- MC_Addrs6
  GossipCount = 3
INVARIANTS ObsInputOK C17_Bounds C17_SeedAlways C17_DeadAlways C17_Allowed
CHECK_DEADLOCK FALSE
