------------------------------ MODULE ObserveServer ------------------------------
(* Judges an observed run of the real gossip loop against C19: the observed per-event effects
   (heartbeat increments, sends and their outcome, termination watcher) replace the model's. *)
EXTENDS Server, IOUtils

Rec == ndJsonDeserialize(IOEnv.TRACE)

ObsInit == \E i \in 1..Len(Rec) :
   /\ hist = Rec[i].observed
   /\ running = Rec[i].observed[Len(Rec[i].observed)].running
   /\ term = Rec[i].observed[Len(Rec[i].observed)].term
   /\ hb = 0 /\ failNext = 0 /\ panicArmed = FALSE /\ defer = 0
ObsNext == UNCHANGED vars

\* was a scripted panic armed and not yet consumed before step i?
RECURSIVE Armed(_)
Armed(i) == IF i <= 1 THEN FALSE
            ELSE IF hist[i - 1].e = "SendPanic" THEN TRUE
            ELSE IF hist[i - 1].term = "panic" /\ (i = 2 \/ hist[i - 2].term # "panic") THEN FALSE
            ELSE Armed(i - 1)
\* number of consecutive unsettled gossip commands right before step i
RECURSIVE Queued(_)
Queued(i) == IF i <= 1 \/ ~hist[i - 1].nosettle THEN 0 ELSE 1 + Queued(i - 1)
RunningBefore(i) == i = 1 \/ hist[i - 1].running
TermBefore(i) == IF i = 1 THEN "none" ELSE hist[i - 1].term

C19_Observed ==
  \A i \in 1..Len(hist) :
    LET s == hist[i] IN
    /\ s.locked_quiet                                     \* nothing is processed while the user holds the state
    /\ s.running <=> (s.term = "none")
    /\ ~RunningBefore(i) => (s.dhb = 0 /\ s.sends = <<>> /\ s.term = TermBefore(i))
    /\ (RunningBefore(i) /\ ~Armed(i)) =>
         /\ s.e \in {"Tick", "RecvSyn", "RecvSynBad", "RecvAck", "CmdGossip", "SendFail", "SendPanic"} =>
              (s.running /\ s.term = "none")                \* in particular whatever the sends returned
         /\ s.e = "Tick" => (s.dhb = 1 /\ Len(s.sends) = 1 /\ s.sends[1].t = "Syn")
         /\ s.e = "RecvSyn" => (s.dhb = 1 /\ Len(s.sends) = 1 /\ s.sends[1].t = "SynAck")
         /\ s.e = "RecvSynBad" => (Len(s.sends) = 1 /\ s.sends[1].t = "Bad")
         /\ s.e = "RecvFatal" => s.term = "err"
         /\ s.e = "Shutdown" => s.term = "ok"
    /\ (RunningBefore(i) /\ Armed(i) /\ SendsOf(s.e) # <<>> /\ ~s.nosettle) => s.term = "panic"
    \* gossip commands queued before this event (issued without waiting) are served first, in order, and
    \* swallow nothing: the event's own effect (in particular a shutdown) still happens
    /\ (RunningBefore(i) /\ ~Armed(i) /\ ~s.nosettle) =>
         LET q == Queued(i) IN Len(s.sends) >= q /\ \A j \in 1..q : s.sends[j].t = "Syn"
==================================================================================
