----------------------------- MODULE ObserveServerUdp -----------------------------
(* C19 on the real UdpTransport (loopback): one record per run of the driver:
   [rounds, rounds_ok, loop_ended, heartbeat_progress, oversized_phase_ok, shutdown_ok].
   Garbage datagrams (up to 65 507 bytes), an unreachable seed and a period of oversized sends
   refused by the kernel must leave the loop alive, heartbeating and answering; a shutdown completes. *)
EXTENDS Integers, Sequences, IOUtils, TLC, Json

Rec == ndJsonDeserialize(IOEnv.TRACE)
VARIABLE i
ObsInit == i \in 1..Len(Rec)
ObsNext == UNCHANGED i

C19_UdpObserved ==
  LET r == Rec[i] IN
  /\ ~r.loop_ended                      \* undecodable datagrams / failed sends never terminate the loop
  /\ r.rounds_ok = r.rounds             \* every valid SYN sent after a burst of garbage was answered
  /\ r.oversized_phase_ok               \* ... and after a period of refused oversized sends
  /\ r.heartbeat_progress               \* the node keeps heartbeating
  /\ r.shutdown_ok                      \* a shutdown request completes
===================================================================================
