SPECIFICATION Spec
CONSTANTS
  V = 3
  KeysS = {"k1", "k2", "k3"}
  KeysR = {"k1"}
INVARIANTS C14_Agreement C04_Pairs C20_Pairs C07_Range
CHECK_DEADLOCK FALSE
