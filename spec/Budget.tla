--------------------------------- MODULE Budget ---------------------------------
(***************************************************************************)
(* C07 (size half): the byte budget of a reply.  Transcription of          *)
(* CompressedStreamWriter (serialize.rs), DeltaSerializer::try_add_op      *)
(* (delta.rs) and the budgets chosen in process_message (lib.rs), with the *)
(* compressor as nondeterminism: a flushed block of n raw bytes is stored  *)
(* in c bytes, 1 <= c <= n - Gain(n) when compressed, or n when raw.       *)
(* Scaled down (block threshold T, datagram limit Limit) so that TLC can   *)
(* enumerate every op-size sequence and every compression outcome.         *)
(***************************************************************************)
EXTENDS Integers, Sequences, TLC

CONSTANTS T,          \* block threshold (16 384 in the code)
          Limit,      \* datagram payload limit (65 507 in the code)
          Header,     \* bytes in front of the digest: magic(2) version(1) tag(1) = 4
          Reserved,   \* bytes the code subtracts from Limit when it computes the delta budget
          Sizes,      \* op sizes that may be offered
          Digests,    \* own digest lengths (0 for an ACK, which carries no digest)
          MaxOps,
          FullGain    \* zstd is assumed to save at least this many bytes on every FULL block

VARIABLES d,        \* digest length of the message being built
          out,      \* bytes already flushed (block headers + stored block contents)
          cur,      \* raw bytes in the open block
          nops,     \* ops accepted so far
          lastUb,   \* upper bound computed when the last op was accepted (0: none)
          fin       \* final stream length after finish (-1: not finished)
vars == <<d, out, cur, nops, lastUb, fin>>

Mtu == Limit - Reserved - d      \* lib.rs:138 (SYN-ACK) and :156 (ACK, d = 0)

Init == d \in Digests /\ out = 0 /\ cur = 0 /\ nops = 0 /\ lastUb = 0 /\ fin = -1

\* serialized_len_upperbound_after
Ub(item) == IF cur + item > T THEN 3 + out + cur + 3 + item + 1 ELSE 3 + out + cur + item + 1

\* flush_block while the open block exceeds the threshold: every full block is stored in c bytes
RECURSIVE Flushes(_, _)
Flushes(o, c) ==    \* set of <<out', cur'>> reachable by flushing full blocks
  IF c <= T THEN {<<o, c>>}
  ELSE UNION {Flushes(o + 3 + stored, c - T) :
                stored \in (1..(T - FullGain)) \cup (IF FullGain = 0 THEN {T} ELSE {})}

TryAdd(item) ==
  /\ fin = -1 /\ nops < MaxOps
  /\ Ub(item) <= Mtu                 \* try_add_op accepts
  /\ \E r \in Flushes(out, cur + item) : out' = r[1] /\ cur' = r[2]
  /\ nops' = nops + 1 /\ lastUb' = Ub(item) /\ UNCHANGED <<d, fin>>

Finish ==
  /\ fin = -1
  /\ \E stored \in (IF cur = 0 THEN {0} ELSE (1..cur)) :
       fin' = out + (IF cur = 0 THEN 0 ELSE 3 + stored) + 1
  /\ UNCHANGED <<d, out, cur, nops, lastUb>>

Next == (\E s \in Sizes : TryAdd(s)) \/ Finish
Spec == Init /\ [][Next]_vars

\* the writer keeps its promise: the finished stream is not longer than the bound it accepted under
C07_WriterBound == (fin >= 0 /\ nops > 0) => fin <= lastUb
\* the stream fits the budget the caller gave
C07_WithinBudget == fin >= 0 => fin <= (IF Mtu > 1 THEN Mtu ELSE 1)
\* and the whole datagram (header + digest + stream) fits the payload limit
C07_DatagramFits == fin >= 0 => Header + d + fin <= Limit
=================================================================================
