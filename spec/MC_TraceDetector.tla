---- MODULE MC_TraceDetector ----
EXTENDS TraceDetector
MC_Cluster == [n \in Node |-> "c"]
MC_Addr == [n \in Node |-> n]
====
