--------------------------- MODULE ObserveListeners ---------------------------
(* Judges observed listener calls of the real code against Listeners!Expected. Each record:
   [subs, key (sequence of 1-char strings), kind, observed (set of calls), panic]. *)
EXTENDS Listeners, IOUtils

Rec == ndJsonDeserialize(IOEnv.TRACE)
SetOf(seq) == {seq[i] : i \in 1..Len(seq)}

ObsInit == \E i \in 1..Len(Rec) :
   /\ subs = [j \in 1..Len(Rec[i].subs) |-> [prefix |-> Rec[i].subs[j].chars, fate |-> Rec[i].subs[j].fate]]
   /\ key = Rec[i].keychars /\ kind = Rec[i].kind /\ done = TRUE /\ ops = <<>>
   /\ calls = [set |-> SetOf(Rec[i].observed), n |-> Len(Rec[i].observed), panic |-> Rec[i].panic]
ObsNext == UNCHANGED vars

\* exactly the expected calls, each exactly once, and no panic
C15_Dispatch == /\ ~calls.panic
                /\ calls.set = Expected
                /\ calls.n = Cardinality(Expected)
===============================================================================
