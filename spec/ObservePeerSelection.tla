------------------------ MODULE ObservePeerSelection ------------------------
(* Verdict rule R3 for C17: the formulas of PeerSelection.tla evaluated on what the REAL
   select_nodes_for_gossip returned.  Each record of the input file (IOEnv.TRACE, ndjson) is one
   observed call: peers/live/dead/seeds = the sets handed to the code (JSON arrays of model
   address names), nodes / dead_out / seed_out = what it returned, translated back to model names
   ("none" for an absent optional; nodes = <<"panic">> when the code panicked, which no
   specification allows).  Every record is an initial state in its final ("out") form; the
   invariants C17_Bounds, C17_SeedAlways, C17_DeadAlways, C17_Allowed are checked on it.
   `idx` names the record so that a counterexample can be traced back to its line. *)
EXTENDS PeerSelection, IOUtils

VARIABLE idx

Rec == ndJsonDeserialize(IOEnv.TRACE)

ObsInit == \E i \in 1..Len(Rec) :
             /\ idx = i
             /\ peers = Range(Rec[i].peers) /\ live = Range(Rec[i].live)
             /\ dead = Range(Rec[i].dead) /\ seeds = Range(Rec[i].seeds)
             /\ pc = "out"
             /\ out = [nodes |-> Rec[i].nodes, dead |-> Rec[i].dead_out, seed |-> Rec[i].seed_out]
ObsNext == UNCHANGED <<vars, idx>>

\* the harness handed the code a well-formed input over the declared universe
ObsInputOK == InputOK
=============================================================================
