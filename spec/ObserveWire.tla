------------------------------ MODULE ObserveWire ------------------------------
(* Judges what the real decoder / encoder and the independent codec did with the bytes of one
   message shape, against Wire!Layout. Records: [shape, is_raw, obs]. *)
EXTENDS Wire, IOUtils

Rec == ndJsonDeserialize(IOEnv.TRACE)
VARIABLES obs, israw
ovars == <<vars, obs, israw>>

ObsInit == \E i \in 1..Len(Rec) :
   /\ shape = Rec[i].shape /\ done = TRUE /\ layout = Layout(Rec[i].shape)
   /\ obs = Rec[i].obs /\ israw = Rec[i].is_raw
ObsNext == UNCHANGED ovars

Has(f) == f \in DOMAIN obs
C08_Wire ==
  \* the independent implementation follows the documented layout arithmetic
  /\ obs.codec_self_ok
  /\ (israw \/ shape.t \in {"Syn", "Bad"}) => obs.codec_len = layout.total
  /\ (~israw /\ shape.t \in {"Ack", "SynAck"}) => obs.codec_len <= layout.bound
  /\ "raw" \in DOMAIN layout => (obs.codec_raw = layout.raw /\ obs.codec_oplens = layout.oplens)
  /\ "digest" \in DOMAIN layout => obs.codec_digest = layout.digest
  /\ (israw /\ "blocks" \in DOMAIN layout) => obs.codec_blocks = layout.blocks
  \* the real decoder accepts its bytes, consumes all of them, announces their exact number, and
  \* yields the same message whatever the framing
  /\ obs.real_ok /\ obs.left = 0 /\ obs.announced = obs.codec_len /\ obs.same_message
  \* the real encoder reproduces them (own framing) and the codec reads the real encoder's output
  /\ Has("reser_equal") => (obs.reser_equal /\ obs.reser_len = obs.codec_len /\ obs.codec_reads_real)
=================================================================================
