------------------------------- MODULE Listeners -------------------------------
(***************************************************************************)
(* C15: key-change listeners.  A case = a list of subscriptions (prefix,   *)
(* fate of the handle), one key and one kind of key event; the single      *)
(* action computes the calls the specification demands:                    *)
(*   one call per ACTIVE subscription whose prefix is a prefix of the key, *)
(*   carrying (key stripped of that prefix, new value, owning member),     *)
(*   for events that install a new non-deleted value; none otherwise.      *)
(* Strings are sequences of characters; characters carry their UTF-8 byte  *)
(* length (the implementation slices by bytes).  JSON uses the ASCII       *)
(* placeholders E (2-byte char) and G (4-byte char), which the harness     *)
(* realises as real multi-byte characters.                                 *)
(***************************************************************************)
EXTENDS Integers, Sequences, FiniteSets, SequencesExt, TLC, Json

CONSTANTS Family,     \* "pairs": one subscription x every (prefix, key); "multi": three subscriptions;
                      \* "two": two live ones; "churn": a SEQUENCE of subscribe / drop / forever operations
          MaxKeyLen, MaxPrefixLen,
          MaxOps      \* churn only: length bound of the operation sequence

Chars == {"a", "b", "E", "G"}
ByteLen(c) == CASE c = "a" -> 1 [] c = "b" -> 1 [] c = "E" -> 2 [] c = "G" -> 4

Strings(n) == UNION {[1..m -> Chars] : m \in 0..n}
RECURSIVE Str(_)
Str(s) == IF s = <<>> THEN "" ELSE Head(s) \o Str(Tail(s))

Fates == {"held", "dropped", "forever"}     \* what happened to the ListenerHandle
Kinds == {"LocalSetNew", "LocalSetChange", "LocalSetSame", "LocalSetAfterDelete", "LocalSetTtlNew",
          "LocalDelete", "LocalDeleteTtl", "ReplNewerSet", "ReplNewerTtl", "ReplTombstone", "ReplStale",
          \* a write that installs a new version whose value string equals what the entry already stores:
          "LocalSetEmptyAfterDelete",   \* set(k, "") over a tombstone (which stores the empty string)
          "LocalSetTtlSameValue",       \* set_with_ttl(k, v) over a plain entry holding v
          "ReplSameValueNewer",         \* a newer replicated version carrying the same value (a -> b -> a seen as a -> a)
          \* the owner's copy is rebuilt from scratch by a resetting delta (from version 0, GC watermark above the
          \* copy's frontier: state.rs reset_node); subscriptions are per node, not per copy, so they survive it:
          "ReplResetCarried",           \* the newer value is carried by the resetting delta itself
          "ReplAfterReset",             \* the newer value arrives in an ordinary delta after the copy was reset
          "ReplResetTombstone"}         \* the resetting delta carries the key as a tombstone: no call
Fires(kind) == kind \in {"LocalSetNew", "LocalSetChange", "LocalSetAfterDelete", "LocalSetTtlNew",
                         "ReplNewerSet", "ReplNewerTtl", "LocalSetEmptyAfterDelete", "LocalSetTtlSameValue",
                         "ReplSameValueNewer", "ReplResetCarried", "ReplAfterReset"}
Owner(kind) == IF kind \in {"ReplNewerSet", "ReplNewerTtl", "ReplTombstone", "ReplStale", "ReplSameValueNewer", "ReplResetCarried", "ReplAfterReset", "ReplResetTombstone"} THEN "n2" ELSE "n1"
ValueOf(kind) == IF kind = "LocalSetEmptyAfterDelete" THEN "" ELSE "v1"

VARIABLES subs,   \* sequence of [prefix, fate]
          key, kind, done, calls,
          ops     \* churn: the operations, in order, that produced subs (<<>> in the other families)
vars == <<subs, key, kind, done, calls, ops>>

\* churn: subscriptions come and go in any order before the event -- subscribe after a drop, drop the first
\* of two subscriptions on the same prefix, make one permanent and drop its neighbour, ...
ChurnPrefixes == {<<>>, <<"a">>}
OpSet == {[o |-> "Sub", p |-> p, i |-> 0] : p \in ChurnPrefixes}
         \cup {[o |-> oo, p |-> <<>>, i |-> i] : oo \in {"Drop", "Forever"}, i \in 1..3}
ApplyOp(acc, op) ==     \* acc = [ok, subs]
  IF ~acc.ok THEN acc
  ELSE IF op.o = "Sub" THEN [ok |-> TRUE, subs |-> Append(acc.subs, [prefix |-> op.p, fate |-> "held"])]
  ELSE IF op.i <= Len(acc.subs) /\ acc.subs[op.i].fate = "held"
       THEN [ok |-> TRUE, subs |-> [acc.subs EXCEPT ![op.i].fate = IF op.o = "Drop" THEN "dropped" ELSE "forever"]]
       ELSE [ok |-> FALSE, subs |-> acc.subs]
RECURSIVE RunOps(_, _)
RunOps(acc, os) == IF os = <<>> THEN acc ELSE RunOps(ApplyOp(acc, Head(os)), Tail(os))
Outcome(os) == RunOps([ok |-> TRUE, subs |-> <<>>], os)
ValidOps == {os \in UNION {[1..m -> OpSet] : m \in 1..MaxOps} : Outcome(os).ok /\ Outcome(os).subs # <<>>}

ShortPrefixes == Strings(1)
Init ==
  /\ key \in Strings(MaxKeyLen)
  /\ kind \in (IF Family \in {"two", "churn"} THEN {"LocalSetNew", "ReplNewerSet"}
               ELSE IF Family = "multi" THEN Kinds \ {"LocalSetEmptyAfterDelete", "LocalSetTtlSameValue", "ReplSameValueNewer"}
               ELSE Kinds)
  /\ IF Family = "churn"
     THEN ops \in ValidOps /\ subs = Outcome(ops).subs
     ELSE ops = <<>>
  /\ IF Family = "churn" THEN TRUE
     ELSE IF Family = "pairs"
     THEN subs \in {<<[prefix |-> p, fate |-> f]>> : p \in Strings(MaxPrefixLen), f \in Fates}
     ELSE IF Family = "two"   \* two live subscriptions, one of them possibly longer than the key
     THEN subs \in {<<[prefix |-> p1, fate |-> "held"], [prefix |-> p2, fate |-> "held"]>> :
                      p1 \in Strings(MaxPrefixLen), p2 \in Strings(2)}
     ELSE subs \in {<<[prefix |-> p1, fate |-> f1], [prefix |-> p2, fate |-> f2], [prefix |-> p3, fate |-> f3]>> :
                      p1 \in ShortPrefixes, p2 \in ShortPrefixes, p3 \in Strings(MaxPrefixLen),
                      f1 \in Fates, f2 \in Fates, f3 \in {"held", "dropped"}}
  /\ done = FALSE
  /\ calls = {}

Active(s) == s.fate # "dropped"
Suffix(p, k) == SubSeq(k, Len(p) + 1, Len(k))

Expected ==
  IF ~Fires(kind) THEN {}
  ELSE {[sub |-> i, key |-> Str(Suffix(subs[i].prefix, key)), value |-> ValueOf(kind), node |-> Owner(kind)] :
          i \in {j \in 1..Len(subs) : Active(subs[j]) /\ IsPrefix(subs[j].prefix, key)}}

Fire == ~done /\ done' = TRUE /\ calls' = Expected /\ UNCHANGED <<subs, key, kind, ops>>
Spec == Init /\ [][Fire]_vars

\* what the implementation's range scan would visit (transcription of listener.rs trigger_event):
\* the empty prefix, then prefixes p with first-char(key) <= p <= key in byte order that strip.
\* TLC shows it agrees with Expected whenever the byte slice key[0..1] is a character boundary.
FirstCharIsOneByte == key = <<>> \/ ByteLen(key[1]) = 1
ScanWouldPanic == key # <<>> /\ ByteLen(key[1]) > 1

\* sanity of the reference itself
ExpectedSane ==
  done => /\ \A c \in calls : Active(subs[c.sub]) /\ IsPrefix(subs[c.sub].prefix, key)
          /\ Cardinality(calls) <= Len(subs)
          /\ (~Fires(kind) => calls = {})

EmitEdge == PrintT("EDGE " \o ToJson(
   [subs |-> [i \in 1..Len(subs) |-> [prefix |-> Str(subs[i].prefix), fate |-> subs[i].fate]],
    ops |-> [i \in 1..Len(ops) |-> [o |-> ops[i].o, p |-> Str(ops[i].p), i |-> ops[i].i]],
    key |-> Str(key), kind |-> kind, first_char_bytes |-> IF key = <<>> THEN 0 ELSE ByteLen(key[1]),
    expect |-> calls']))
===============================================================================
