---- MODULE MC_Gossip ----
EXTENDS Gossip
MC_Cluster == [n \in Node |-> "c"]
====
