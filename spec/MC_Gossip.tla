---- MODULE MC_Gossip ----
EXTENDS Gossip
MC_Cluster == [n \in Node |-> "c"]
MC_ClusterSplit == [n \in Node |-> IF n = "n3" THEN "C" ELSE "c"]
MC_Addr == [n \in Node |-> n]
====
