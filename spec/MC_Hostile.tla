---- MODULE MC_Hostile ----
EXTENDS Hostile
MC_Cluster == [n \in Node |-> "c"]
MC_Addr == [n \in Node |-> n]
====
