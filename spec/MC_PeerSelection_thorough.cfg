SPECIFICATION Spec
CONSTANTS
  AddrSeq <- MC_Addrs6
  GossipCount = 3
INVARIANTS InputOK C17_Bounds C17_SeedAlways C17_DeadAlways C17_Allowed SomeOutput
ACTION_CONSTRAINT EmitEdge
CHECK_DEADLOCK FALSE
