---- MODULE MC_PeerSelection ----
EXTENDS PeerSelection
\* address universes (the cfg language has no sequence literals)
MC_Addrs2 == <<"a1", "a2">>
MC_Addrs3 == <<"a1", "a2", "a3">>
MC_Addrs4 == <<"a1", "a2", "a3", "a4">>
MC_Addrs5 == <<"a1", "a2", "a3", "a4", "a5">>
MC_Addrs6 == <<"a1", "a2", "a3", "a4", "a5", "a6">>
====
