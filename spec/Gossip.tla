-------------------------------- MODULE Gossip --------------------------------
(***************************************************************************)
(* The N-node chitchat system, one action per entry point of the Rust      *)
(* `Chitchat` object (lib.rs), the network as a set of in-flight messages. *)
(* Implementation-shaped on purpose: known deviations of the code from     *)
(* ALGORITHM.md are modelled as the code has them.                         *)
(*                                                                         *)
(* Node-local state  st[n] = [ns, gcd, fd, live, dead, prev, watch, wseq,  *)
(*                            cb]                                          *)
(*   ns    : member -> copy [hb, max, gc, kv]      [ClusterState.node_states]*)
(*   gcd   : member -> heartbeat at removal        [garbage_collected_nodes]*)
(*   fd    : member -> [win, last]                 [FailureDetector.node_samples]*)
(*   live  : set of members [self excluded]        [FailureDetector.live_nodes]*)
(*   dead  : member -> tick of death               [FailureDetector.dead_nodes]*)
(*   prev  : member -> max version                 (previous_live_nodes)   *)
(*   watch : member -> max version of the snapshot (live_nodes_watcher)    *)
(*   wseq  : number of values published on the watch channel               *)
(*   cb    : number of catch-up callback invocations                       *)
(***************************************************************************)
EXTENDS NodeStateOps, FdOps, Json

CONSTANTS
  Node,          \* node names
  Writers,       \* nodes whose owner API is exercised
  Key, Val,
  Cluster,       \* [Node -> cluster id]
  Addr,          \* [Node -> network address]: a restarted node keeps its address under a new identity
  Grace,         \* marked_for_deletion_grace_period (ticks)
  Advances,      \* clock steps
  Budget,        \* delta budget in entry units (an entry with a non-empty value costs 1); >= 99 = unbounded
  MaxVer,        \* bound on owner versions          (state constraint)
  MaxInflight,   \* bound on |net|                    (state constraint)
  MaxClock,      \* bound on clock                    (state constraint)
  MaxHb,         \* bound on heartbeats               (state constraint, TrackHb only)
  TrackHb,       \* FALSE: heartbeats are abstracted away (frozen detector configs)
  KeepPath,      \* TRUE: hist is the whole path (behaviour export); FALSE: only the last action (trace validation)
  DeadGrace,     \* dead_node_grace_period (ticks, even); the other detector constants are FdOps'
  PredKey, PredVal,  \* extra liveness predicate kv[PredKey] = PredVal visible; PredKey = "" -> none
  ConvRounds,    \* fair rounds granted for convergence (C01_Converges)
  Enable         \* set of enabled action families: "api","ttl","gc","hb","live","catchup","lose","dup"

VARIABLES st, net, clock, ledger, mid, panic, hist

vars == <<st, net, clock, ledger, mid, panic>>
View == vars

Infinite == Budget >= 99

-------------------------------------------------------------------------------
\* Initial state: Chitchat::with_chitchat_id_and_seeds -- own copy with heartbeat 1
InitNode(n) ==
  [ns    |-> [x \in {n} |-> [NewCopy EXCEPT !.hb = IF TrackHb THEN 1 ELSE 0]],
   gcd   |-> EmptyFn,
   fd    |-> EmptyFn,
   live  |-> {},
   dead  |-> EmptyFn,
   prev  |-> EmptyFn,
   watch |-> EmptyFn,
   wseq  |-> 0,
   cb    |-> 0]

Init ==
  /\ st = [n \in Node |-> InitNode(n)]
  /\ net = {}
  /\ clock = 0
  /\ ledger = [n \in Node |-> <<>>]
  /\ mid = [n \in Node |-> FALSE]
  /\ panic = FALSE
  /\ hist = <<>>

\* (trace validation keeps only the last action, preceded by a parity record so that two equal consecutive
\*  actions still change hist -- LastAct and the action properties rely on hist' # hist)
Parity(h) == IF Len(h) >= 1 /\ "par" \in DOMAIN h[1] THEN h[1].par ELSE 0
Step(a) == hist' = IF KeepPath THEN Append(hist, a) ELSE <<[par |-> 1 - Parity(hist)], a>>

-------------------------------------------------------------------------------
\* Derived sets (failure_detector.rs:104-121, lib.rs:95)
Half == DeadGrace \div 2
SchedOf(s, now) == {x \in DOMAIN s.dead : s.dead[x] + Half < now}
DigestFor(s, now) ==
  [x \in (DOMAIN s.ns) \ SchedOf(s, now) |-> DigestOf(s.ns[x])]

Own(n) == st[n].ns[n]
\* total versions for the formulas: a node that lost its own state (possible only in a defective
\* implementation observed through a trace) counts as holding nothing, so that the formulas FAIL instead of erring
OwnIn(s, n) == IF n \in DOMAIN s.ns THEN s.ns[n] ELSE NewCopy
OwnT(n) == IF n \in DOMAIN st THEN OwnIn(st[n], n) ELSE NewCopy

-------------------------------------------------------------------------------
\* Owner API on self_node_state()
ApiWrite(n, op, k, v) ==
  /\ n \in Writers
  /\ LET c  == Own(n)
         c2 == CASE op = "Set"       -> LocalSet(c, k, v)
                 [] op = "SetTtl"    -> LocalSetTtl(c, k, v, clock)
                 [] op = "Delete"    -> LocalDelete(c, k, clock)
                 [] op = "DeleteTtl" -> LocalDeleteTtl(c, k, clock)
     IN /\ st' = [st EXCEPT ![n].ns[n] = c2]
        /\ ledger' = IF c2 = c THEN ledger
                     ELSE [ledger EXCEPT ![n] = Append(@, [k |-> k, v |-> c2.kv[k].val,
                                                          ver |-> c2.kv[k].ver, st |-> c2.kv[k].st])]
  /\ UNCHANGED <<net, clock, mid, panic>>
  /\ Step([a |-> op, n |-> n, k |-> k, v |-> v])

\* update_self_heartbeat
BumpHb(s, n) == IF TrackHb THEN [s EXCEPT !.ns[n].hb = @ + 1] ELSE s

Heartbeat(n) ==
  /\ st' = [st EXCEPT ![n] = BumpHb(@, n)]
  /\ UNCHANGED <<net, clock, ledger, mid, panic>>
  /\ Step([a |-> "Heartbeat", n |-> n])

\* gc_keys_marked_for_deletion on every copy the node holds
GcKeys(n) ==
  /\ st' = [st EXCEPT ![n].ns = [x \in DOMAIN @ |-> GcCopy(@[x], clock, Grace)]]
  /\ UNCHANGED <<net, clock, ledger, mid, panic>>
  /\ Step([a |-> "Gc", n |-> n])

Advance(d) ==
  /\ clock' = clock + d
  /\ UNCHANGED <<st, net, ledger, mid, panic>>
  /\ Step([a |-> "Advance", d |-> d])

-------------------------------------------------------------------------------
\* Failure detector operators (FdReport, AliveOutcomes): module FdOps

-------------------------------------------------------------------------------
\* report_heartbeat (lib.rs:183-205) for one digest entry
ReportOne(s, n, x, hb, now) ==
  IF x = n THEN s
  ELSE
    LET shouldInit == IF x \in DOMAIN s.gcd THEN s.gcd[x] < hb ELSE TRUE
        known == x \in DOMAIN s.ns
    IN IF ~known /\ ~shouldInit THEN s
       ELSE LET s1 == IF known THEN s
                      ELSE [s EXCEPT !.ns = Put(@, x, NewCopy), !.gcd = Drop(@, {x})]
                r == IF TrackHb THEN TryHeartbeat(s1.ns[x], hb) ELSE <<s1.ns[x], FALSE>>
                s2 == [s1 EXCEPT !.ns[x] = r[1]]
            IN IF r[2] THEN [s2 EXCEPT !.fd = FdReport(@, x, now)] ELSE s2

RECURSIVE ReportAll(_, _, _, _, _)
ReportAll(s, n, dig, xs, now) ==
  IF xs = {} THEN s
  ELSE LET x == CHOOSE y \in xs : TRUE
       IN ReportAll(ReportOne(s, n, x, dig[x].hb, now), n, dig, xs \ {x}, now)

ReportDigest(s, n, dig, now) == ReportAll(s, n, dig, DOMAIN dig, now)

-------------------------------------------------------------------------------
\* apply_delta (state.rs:593-610) + process_delta (lib.rs:111-119)
\* delta : member -> node-delta.  Members the node does not know are skipped.
RECURSIVE ApplyAll(_, _, _, _)
ApplyAll(acc, delta, xs, now) ==
  \* acc = [s, reset, panic, mid]
  IF xs = {} THEN acc
  ELSE LET x == CHOOSE y \in xs : TRUE
           s == acc.s
       IN IF x \notin DOMAIN s.ns THEN ApplyAll(acc, delta, xs \ {x}, now)
          ELSE LET c == s.ns[x]
                   r == ApplyNodeDelta(c, delta[x], now)
                   lexOk == r.c.gc > c.gc \/ (r.c.gc = c.gc /\ r.c.max >= c.max)
                   isMid == r.status = "Apply" /\ c.gc > c.max /\ delta[x].gc < c.gc
               IN ApplyAll([s     |-> [s EXCEPT !.ns[x] = r.c],
                            reset |-> acc.reset \/ r.status = "Reset",
                            panic |-> acc.panic \/ r.panic \/ ~lexOk,
                            mid   |-> IF isMid THEN acc.mid \cup {x} ELSE acc.mid],
                           delta, xs \ {x}, now)

ProcessDelta(s, delta, now) ==
  LET r == ApplyAll([s |-> s, reset |-> FALSE, panic |-> FALSE, mid |-> {}], delta, DOMAIN delta, now)
  IN [r EXCEPT !.s = IF r.reset THEN [r.s EXCEPT !.cb = @ + 1] ELSE r.s]

-------------------------------------------------------------------------------
\* compute_partial_delta_respecting_mtu (state.rs:632-703)
DgOf(dig, x) == IF x \in DOMAIN dig THEN [gc |-> dig[x].gc, max |-> dig[x].max]
                ELSE [gc |-> 0, max |-> 0]

StaleSet(ns, dig, sched) == {x \in (DOMAIN ns) \ sched : IsStale(ns[x], DgOf(dig, x))}

SKey(ns, dig, x) == Staleness(ns[x], FromVersion(ns[x], DgOf(dig, x)))

\* admissible service orders: decreasing priority, ties in any order (shuffle)
RECURSIVE Orders(_, _, _)
Orders(ns, dig, S) ==
  IF S = {} THEN {<<>>}
  ELSE LET top == {x \in S : \A y \in S : ~Before(SKey(ns, dig, y), SKey(ns, dig, x))}
       IN UNION {{<<x>> \o r : r \in Orders(ns, dig, S \ {x})} : x \in top}
\* one canonical admissible order (used when the budget is unbounded: the result does not depend on it)
RECURSIVE OneOrder(_, _, _)
OneOrder(ns, dig, S) ==
  IF S = {} THEN <<>>
  ELSE LET x == CHOOSE y \in S : \A z \in S : ~Before(SKey(ns, dig, z), SKey(ns, dig, y))
       IN <<x>> \o OneOrder(ns, dig, S \ {x})

Cost(m) == IF Infinite THEN 0 ELSE IF m.v = "" THEN 0 ELSE 1

\* longest prefix of kvs that fits in `room`; returns [kvs, used, full]
RECURSIVE TakeKvs(_, _, _, _)
TakeKvs(kvs, i, room, acc) ==
  IF i > Len(kvs) THEN [kvs |-> acc, room |-> room, cut |-> FALSE]
  ELSE IF Cost(kvs[i]) > room THEN [kvs |-> acc, room |-> room, cut |-> TRUE]
  ELSE TakeKvs(kvs, i + 1, room - Cost(kvs[i]), Append(acc, kvs[i]))

\* fill the delta following `order`; stops at the first entry that does not fit
RECURSIVE Fill(_, _, _, _, _, _)
Fill(ns, dig, order, i, room, acc) ==
  IF i > Len(order) THEN acc
  ELSE LET x == order[i]
           c == ns[x]
           from == FromVersion(c, DgOf(dig, x))
           ks == SortByVer(c, StaleKeys(c, from))
           muts == [j \in 1..Len(ks) |-> KvMutation(c, ks[j])]
           t == TakeKvs(muts, 1, room, <<>>)
           nd == [from |-> from, gc |-> c.gc, kvs |-> t.kvs,
                  max |-> IF t.kvs # <<>> THEN t.kvs[Len(t.kvs)].ver
                          ELSE IF muts = <<>> THEN c.max ELSE 0]
           acc2 == Put(acc, x, nd)
       IN IF t.cut THEN acc2 ELSE Fill(ns, dig, order, i + 1, t.room, acc2)

Deltas(ns, dig, sched) ==
  LET S == StaleSet(ns, dig, sched)
  IN IF Infinite THEN {Fill(ns, dig, OneOrder(ns, dig, S), 1, 0, EmptyFn)}
     ELSE {Fill(ns, dig, o, 1, Budget, EmptyFn) : o \in Orders(ns, dig, S)}

-------------------------------------------------------------------------------
\* Messages
SynMsg(n, p)  == [t |-> "Syn", src |-> n, dst |-> p, cluster |-> Cluster[n],
                  digest |-> DigestFor(st[n], clock)]

CreateSyn(n, p) ==
  /\ p # n
  /\ net' = net \cup {SynMsg(n, p)}
  /\ UNCHANGED <<st, clock, ledger, mid, panic>>
  /\ Step([a |-> "CreateSyn", n |-> n, to |-> p, out |-> SynMsg(n, p)])

\* process_message (lib.rs:121-174).  keep = the datagram stays in flight (duplication).
\* ProcessMsg does not require the datagram to be in `net` (crafted datagrams: detector histories,
\* hostile peers); Process is the honest-network case.
ProcessMsgRec(n, m, keep, act, wire) ==
  /\ LET s0 == BumpHb(st[n], n)
         rest == IF keep THEN net ELSE net \ {m}
     IN
     CASE m.t = "Syn" ->
            IF m.cluster # Cluster[n]
            THEN LET out == [t |-> "Bad", src |-> n, dst |-> m.src] IN
                 /\ st' = [st EXCEPT ![n] = s0]
                 /\ net' = rest \cup {out}
                 /\ UNCHANGED <<mid, panic>>
                 /\ Step([a |-> act, n |-> n, msg |-> wire, out |-> out])
            ELSE LET s1 == ReportDigest(s0, n, m.digest, clock)
                     sched == SchedOf(s1, clock)
                 IN \E d \in Deltas(s1.ns, m.digest, sched) :
                      LET out == [t |-> "SynAck", src |-> n, dst |-> m.src,
                                  digest |-> DigestFor(s1, clock), delta |-> d] IN
                      /\ st' = [st EXCEPT ![n] = s1]
                      /\ net' = rest \cup {out}
                      /\ UNCHANGED <<mid, panic>>
                      /\ Step([a |-> act, n |-> n, msg |-> wire, out |-> out])
       [] m.t = "SynAck" ->
            LET s1 == ReportDigest(s0, n, m.digest, clock)
                r  == ProcessDelta(s1, m.delta, clock)
                sched == SchedOf(r.s, clock)
            IN \E d \in Deltas(r.s.ns, m.digest, sched) :
                 LET out == [t |-> "Ack", src |-> n, dst |-> m.src, delta |-> d] IN
                 /\ st' = [st EXCEPT ![n] = r.s]
                 /\ net' = rest \cup {out}
                 /\ mid' = [x \in Node |-> mid[x] \/ x \in r.mid]
                 /\ panic' = (panic \/ r.panic)
                 /\ Step([a |-> act, n |-> n, msg |-> wire, out |-> out])
       [] m.t = "Ack" ->
            LET r == ProcessDelta(s0, m.delta, clock) IN
            /\ st' = [st EXCEPT ![n] = r.s]
            /\ net' = rest
            /\ mid' = [x \in Node |-> mid[x] \/ x \in r.mid]
            /\ panic' = (panic \/ r.panic)
            /\ Step([a |-> act, n |-> n, msg |-> wire])
       [] m.t = "Bad" ->
            /\ st' = [st EXCEPT ![n] = s0]
            /\ net' = rest
            /\ UNCHANGED <<mid, panic>>
            /\ Step([a |-> act, n |-> n, msg |-> wire])
  /\ UNCHANGED <<clock, ledger>>

ProcessMsg(n, m, keep) == ProcessMsgRec(n, m, keep, "Process", m)
\* a crafted datagram (wire form `wire`, decoded form m); the reply stays in flight
ProcessMsgAs(n, m, wire) == ProcessMsgRec(n, m, TRUE, "Inject", wire)

\* datagrams are delivered by ADDRESS: what was sent to a node reaches whichever incarnation listens there
Process(n, m, keep) == m \in net /\ m.dst \in Node /\ Addr[m.dst] = Addr[n] /\ ProcessMsg(n, m, keep)

Lose(m) ==
  /\ m \in net
  /\ net' = net \ {m}
  /\ UNCHANGED <<st, clock, ledger, mid, panic>>
  /\ Step([a |-> "Lose", msg |-> m])

-------------------------------------------------------------------------------
\* update_nodes_liveness (lib.rs:209-255)
PredHolds(c) == PredKey = "" \/ (Visible(c, PredKey) /\ c.kv[PredKey].val = PredVal)

\* evaluate one member with outcome `alive`
EvalOne(s, x, alive, now) ==
  IF alive THEN [s EXCEPT !.live = @ \cup {x}, !.dead = Drop(@, {x})]
  ELSE [s EXCEPT !.live = @ \ {x},
                 !.dead = IF x \in DOMAIN @ THEN @ ELSE Put(@, x, now),
                 !.fd = IF x \in DOMAIN @ THEN Put(@, x, [win |-> <<>>, last |-> @[x].last]) ELSE @]

RECURSIVE EvalAll(_, _, _, _)
EvalAll(s, xs, outcome, now) ==
  IF xs = {} THEN s
  ELSE LET x == CHOOSE y \in xs : TRUE
       IN EvalAll(EvalOne(s, x, outcome[x], now), xs \ {x}, outcome, now)

Publish(s, n) ==
  LET members == (s.live \cup {n}) \cap DOMAIN s.ns
      current == [x \in members |-> s.ns[x].max]
  IN IF s.prev = current THEN s
     ELSE [s EXCEPT !.prev = current,
                    !.watch = [x \in {y \in members : PredHolds(s.ns[y])} |-> s.ns[x].max],
                    !.wseq = @ + 1]

NodeGc(s, n, now) ==
  LET rm == {x \in DOMAIN s.dead : now >= s.dead[x] + DeadGrace}
      rmState == (rm \ {n}) \cap DOMAIN s.ns
  IN [s EXCEPT !.dead = Drop(@, rm),
               !.fd = Drop(@, rm),
               !.gcd = [x \in (DOMAIN @) \cup rmState |-> IF x \in rmState THEN s.ns[x].hb ELSE @[x]],
               !.ns = Drop(@, rmState)]

UpdateLiveness(n) ==
  LET s == st[n]
      others == (DOMAIN s.ns) \ {n}
  IN \E outcome \in [others -> BOOLEAN] :
       /\ \A x \in others : outcome[x] \in AliveOutcomes(s.fd, x, clock)
       /\ st' = [st EXCEPT ![n] = NodeGc(Publish(EvalAll(s, others, outcome, clock), n), n, clock)]
       /\ UNCHANGED <<net, clock, ledger, mid, panic>>
       /\ Step([a |-> "Liveness", n |-> n])

-------------------------------------------------------------------------------
\* reset_node_state_if_update (lib.rs:337-407); kvs : key -> [val, ver, st]
RECURSIVE CatchupSet(_, _, _, _)
CatchupSet(c, kvs, ks, now) ==
  IF ks = {} THEN c
  ELSE LET k == CHOOSE y \in ks : TRUE
           e == Entry(kvs[k].val, kvs[k].ver, kvs[k].st, IF kvs[k].st = "Set" THEN 0 ELSE now)
       IN CatchupSet(SetVersioned(c, k, e), kvs, ks \ {k}, now)

CatchupResult(s, x, kvs, max, gc, now) ==
  \* returns [s, panic]
  LET known == x \in DOMAIN s.ns
      shouldInit == x \notin DOMAIN s.gcd
  IN IF ~known /\ ~shouldInit THEN [s |-> s, panic |-> FALSE]
     ELSE LET s1 == IF known THEN s ELSE [s EXCEPT !.ns = Put(@, x, NewCopy)]
              c == s1.ns[x]
          IN IF c.max >= max THEN [s |-> s1, panic |-> FALSE]
             ELSE IF max < c.gc THEN [s |-> s1, panic |-> FALSE]
             ELSE IF gc < c.gc THEN [s |-> s1, panic |-> FALSE]    \* (fix F-4) older watermark: ignored
             ELSE LET fd2 == IF x \in DOMAIN s1.fd THEN s1.fd
                             ELSE Put(s1.fd, x, [win |-> <<>>, last |-> -1])
                      c1 == CatchupSet(c, kvs, DOMAIN kvs, now)
                      \* (fix F-4) the snapshot's max version is recorded even without key-values
                      c2 == [c1 EXCEPT !.kv = Drop(@, (DOMAIN c.kv) \ (DOMAIN kvs)), !.gc = gc,
                                       !.max = IF @ < max THEN max ELSE @]
                      ok == c2.gc > c.gc \/ (c2.gc = c.gc /\ c2.max > c.max)
                  IN [s |-> [s1 EXCEPT !.fd = fd2, !.ns[x] = c2], panic |-> ~ok]

Catchup(n, x, kvs, max, gc) ==
  /\ x # n
  /\ LET r == CatchupResult(st[n], x, kvs, max, gc, clock) IN
     /\ st' = [st EXCEPT ![n] = r.s]
     /\ panic' = (panic \/ r.panic)
  /\ UNCHANGED <<net, clock, ledger, mid>>
  /\ Step([a |-> "Catchup", n |-> n, x |-> x, kvs |-> kvs, max |-> max, gc |-> gc])

\* what an external fetch can legitimately supply: a snapshot of some node's copy of x
SnapshotOf(c) == [k \in DOMAIN c.kv |-> [val |-> c.kv[k].val, ver |-> c.kv[k].ver, st |-> c.kv[k].st]]
CatchupFromPeer(n, x, p) ==
  /\ x \in DOMAIN st[p].ns /\ p # n
  /\ Catchup(n, x, SnapshotOf(st[p].ns[x]), st[p].ns[x].max, st[p].ns[x].gc)

-------------------------------------------------------------------------------
Next ==
  \/ /\ "api" \in Enable
     /\ \E n \in Writers, k \in Key :
          \/ \E v \in Val : ApiWrite(n, "Set", k, v)
          \/ ApiWrite(n, "Delete", k, "")
          \/ /\ "ttl" \in Enable
             /\ \/ \E v \in Val : ApiWrite(n, "SetTtl", k, v)
                \/ ApiWrite(n, "DeleteTtl", k, "")
  \/ "hb" \in Enable /\ \E n \in Node : Heartbeat(n)
  \/ "gc" \in Enable /\ \E n \in Node : GcKeys(n)
  \/ \E d \in Advances : Advance(d)
  \/ \E n, p \in Node : CreateSyn(n, p)
  \/ \E m \in net : m.dst \in Node /\ Process(m.dst, m, FALSE)
  \/ "dup" \in Enable /\ \E m \in net : m.dst \in Node /\ Process(m.dst, m, TRUE)
  \/ "lose" \in Enable /\ \E m \in net : Lose(m)
  \/ "live" \in Enable /\ \E n \in Node : UpdateLiveness(n)
  \/ "catchup" \in Enable /\ \E n, x, p \in Node : CatchupFromPeer(n, x, p)

Spec == Init /\ [][Next]_<<vars, hist>>

-------------------------------------------------------------------------------
\* State constraint for the bounded configs
Bounded ==
  /\ \A n \in Node : Own(n).max <= MaxVer
  /\ Cardinality(net) <= MaxInflight
  /\ clock <= MaxClock
  /\ TrackHb => \A n \in Node : Own(n).hb <= MaxHb

-------------------------------------------------------------------------------
\* Projection of a node = what the harness reads through chitchat's public API
ViewOf(s, n, now) ==
  [ns    |-> s.ns,
   live  |-> [x \in s.live \cup {n} |-> TRUE],
   dead  |-> [x \in DOMAIN s.dead |-> TRUE],
   sched |-> [x \in SchedOf(s, now) |-> TRUE],
   watch |-> s.watch,
   fd    |-> [x \in DOMAIN s.fd |-> [n |-> Len(s.fd[x].win), sum |-> SeqSum(s.fd[x].win), last |-> s.fd[x].last]],
   wseq  |-> s.wseq,
   cb    |-> s.cb]

Views == [n \in Node |-> ViewOf(st[n], n, clock)]

-------------------------------------------------------------------------------
\* PROPERTIES.  They read only projected state (st[n].ns, live, dead, sched, watch, wseq, cb),
\* messages, the clock and ghost variables derived from logged events (ledger, mid).

Copies == {<<n, x>> \in Node \X Node : x \in DOMAIN st[n].ns}

\* last write of key k by owner x (0-or-1 element set)
LastWrites(x, k) ==
  LET idx == {i \in 1..Len(ledger[x]) : ledger[x][i].k = k}
  IN IF idx = {} THEN {} ELSE {ledger[x][MaxOf(idx)]}
SameWrite(e, w) == e.val = w.v /\ e.ver = w.ver /\ e.st = w.st

\* C02 -- a copy is exact up to its frontier.  (n, x) ranges over all copies, own included.
ExactAt(c, x, k) ==
  \A w \in LastWrites(x, k) :
    w.ver <= c.max =>
      \/ (k \in DOMAIN c.kv /\ SameWrite(c.kv[k], w))
      \/ (w.st # "Set" /\ w.ver <= c.gc /\ k \notin DOMAIN c.kv)
KeysWritten(x) == {ledger[x][i].k : i \in 1..Len(ledger[x])}
NoResurrectionAt(n, x) == \A k \in KeysWritten(x) : ExactAt(st[n].ns[x], x, k)
\* the known finding KF-1 is confined to members for which some node applied an incremental
\* delta while its copy was mid-reset (watermark above max version) from a lower-watermark sender
C02_NoResurrection == \A p \in Copies : mid[p[2]] \/ NoResurrectionAt(p[1], p[2])
C02_Strict         == \A p \in Copies : NoResurrectionAt(p[1], p[2])

\* C03 -- integrity
InLedger(x, k, val, ver, status) ==
  \E i \in 1..Len(ledger[x]) :
     LET w == ledger[x][i] IN w.k = k /\ w.v = val /\ w.ver = ver /\ w.st = status
C03_Integrity ==
  /\ \A p \in Copies :
       LET c == st[p[1]].ns[p[2]] IN
       /\ \A k \in DOMAIN c.kv : InLedger(p[2], k, c.kv[k].val, c.kv[k].ver, c.kv[k].st)
       /\ c.max <= OwnT(p[2]).max
       /\ c.hb <= OwnT(p[2]).hb
  /\ \A m \in net : m.t \in {"SynAck", "Ack"} =>
       \A x \in DOMAIN m.delta :
         /\ \A i \in 1..Len(m.delta[x].kvs) :
              LET e == m.delta[x].kvs[i] IN InLedger(x, e.k, e.v, e.ver, e.st)
         /\ m.delta[x].max <= OwnT(x).max
  /\ \A m \in net : m.t \in {"Syn", "SynAck"} =>
       \A x \in DOMAIN m.digest : m.digest[x].max <= OwnT(x).max /\ m.digest[x].hb <= OwnT(x).hb
  \* no message names a member under an identity that no node uses
  /\ \A m \in net : /\ (m.t \in {"Syn", "SynAck"} => DOMAIN m.digest \subseteq Node)
                     /\ (m.t \in {"SynAck", "Ack"} => DOMAIN m.delta \subseteq Node)

\* C04 -- frontiers and versions only move forward (action property) and honest messages never abort
\* trace files concatenate executions; a "Reset" event re-initialises everything
Resetting == hist' = <<>> /\ hist # <<>>
LexGe(c2, c1) == c2.gc > c1.gc \/ (c2.gc = c1.gc /\ c2.max >= c1.max)
C04_Monotonic ==
  [][ Resetting \/ \A n \in Node : \A x \in (DOMAIN st[n].ns) \cap (DOMAIN st'[n].ns) :
        LET c1 == st[n].ns[x]  c2 == st'[n].ns[x] IN
        /\ LexGe(c2, c1)
        /\ \A k \in (DOMAIN c1.kv) \cap (DOMAIN c2.kv) :
             c2.kv[k].ver >= c1.kv[k].ver \/ c2.gc > c1.gc ]_<<vars, hist>>
LastAct == IF hist' # hist /\ Len(hist') > 0 THEN hist'[Len(hist')] ELSE [a |-> "none", n |-> "", k |-> ""]
\* effective = what the reference versioned map says: set over an equal plain value, set-with-TTL over
\* an equal TTL value and deletes of absent keys change nothing; everything else is a write
Effective(c, op, k, v) ==
  CASE op = "Set"       -> ~(Has(c.kv, k) /\ c.kv[k].val = v /\ c.kv[k].st = "Set")
    [] op = "SetTtl"    -> ~(Has(c.kv, k) /\ c.kv[k].val = v /\ c.kv[k].st = "Ttl")
    [] op = "Delete"    -> Has(c.kv, k)
    [] op = "DeleteTtl" -> Has(c.kv, k)
C04_FreshVersion ==
  [][ Resetting \/ (LastAct.a \in {"Set", "SetTtl", "Delete", "DeleteTtl"} =>
        LET n == LastAct.n  c1 == OwnIn(st[n], n)  c2 == OwnIn(st'[n], n) IN
        IF Effective(c1, LastAct.a, LastAct.k, LastAct.v)
        THEN c2.max = c1.max + 1 /\ LastAct.k \in DOMAIN c2.kv /\ c2.kv[LastAct.k].ver = c2.max /\ c2.gc = c1.gc
        ELSE c2 = c1) ]_<<vars, hist>>
C04_NoPanic == ~panic

\* C05 -- single writer
ActN == IF "n" \in DOMAIN LastAct THEN LastAct.n ELSE ""
C05_OwnUntouched ==
  [][ Resetting \/ \A n \in Node :
        LET c1 == OwnIn(st[n], n)  c2 == OwnIn(st'[n], n) IN
        /\ (n \in DOMAIN st[n].ns => n \in DOMAIN st'[n].ns)      \* a node never forgets itself
        /\ (LastAct.a \notin {"Set", "SetTtl", "Delete", "DeleteTtl", "Gc"} \/ ActN # n) =>
              (c2.kv = c1.kv /\ c2.max = c1.max /\ c2.gc = c1.gc)
        /\ (LastAct.a = "Gc" /\ ActN = n) => (c2.max = c1.max /\ c2.gc >= c1.gc)
        /\ c2.hb - c1.hb \in {0, 1}
        /\ (c2.hb # c1.hb) => (LastAct.a \in {"Process", "Heartbeat", "Inject", "Recv"} /\ ActN = n) ]_<<vars, hist>>
C05_OwnerAhead ==
  \A p \in Copies : LET c == st[p[1]].ns[p[2]]  o == OwnT(p[2]) IN
     c.max <= o.max /\ (c.gc <= o.gc \/ c.gc <= o.max)

\* C20 -- the catch-up callback fires exactly when a processed message reset a copy
GcBefore(n, x) == IF x \in DOMAIN st[n].ns THEN st[n].ns[x].gc ELSE 0
C20_Callback ==
  [][ Resetting \/ \A n \in Node :
        IF LastAct.a = "Process" /\ LastAct.n = n
        THEN LET wasReset == \E x \in DOMAIN st'[n].ns : st'[n].ns[x].gc > GcBefore(n, x)
             IN st'[n].cb = st[n].cb + (IF wasReset THEN 1 ELSE 0)
        ELSE st'[n].cb = st[n].cb ]_<<vars, hist>>

\* well-formedness of copies (justifies the enumeration domains of Agreement.tla)
WellFormed(c) ==
  /\ \A k \in DOMAIN c.kv : c.kv[k].ver >= 1 /\ c.kv[k].ver <= c.max
  /\ \A j, k \in DOMAIN c.kv : j # k => c.kv[j].ver # c.kv[k].ver
  /\ \A k \in DOMAIN c.kv : c.kv[k].st # "Set" => c.kv[k].ts <= clock
WellFormedCopies == \A p \in Copies : WellFormed(st[p[1]].ns[p[2]])
\* no tombstone at or below the watermark, except where the known finding applies
NoStaleTombstones ==
  \A p \in Copies : LET c == st[p[1]].ns[p[2]] IN
     mid[p[2]] \/ \A k \in DOMAIN c.kv : c.kv[k].st # "Set" => c.kv[k].ver > c.gc

\* C12 set invariants that hold in every state
C12_Sets ==
  \A n \in Node :
    /\ st[n].live \cap DOMAIN st[n].dead = {}
    /\ n \notin st[n].live /\ n \notin DOMAIN st[n].dead
    /\ n \in DOMAIN st[n].ns
    /\ st[n].live \subseteq DOMAIN st[n].ns
    /\ DOMAIN st[n].dead \subseteq DOMAIN st[n].ns
    /\ (DOMAIN st[n].gcd) \cap (DOMAIN st[n].ns) = {}

\* C07 (structural half) -- what a reply carries for each member: only members not scheduled for
\* deletion, exactly the sender's entries in (from, max], ascending, nothing else
SchedSeen(n) == IF "sched" \in DOMAIN st'[n] THEN st'[n].sched ELSE SchedOf(st'[n], clock')
C07_Structure ==
  [][ Resetting \/ (("out" \in DOMAIN LastAct /\ "delta" \in DOMAIN LastAct.out /\ LastAct.a = "Process") =>
        LET n == LastAct.n  d == LastAct.out.delta  dig == LastAct.msg.digest IN
        \A x \in DOMAIN d :
          /\ x \in DOMAIN st'[n].ns
          /\ x \notin SchedSeen(n)
          /\ LET c == st'[n].ns[x]  nd == d[x] IN
             /\ nd.from \in {0, DgOf(dig, x).max}
             /\ nd.gc = c.gc
             /\ \A i \in 1..Len(nd.kvs) :
                  LET e == nd.kvs[i] IN
                  /\ e.ver > nd.from
                  /\ e.k \in DOMAIN c.kv
                  /\ c.kv[e.k].ver = e.ver /\ c.kv[e.k].val = e.v /\ c.kv[e.k].st = e.st
                  /\ i > 1 => nd.kvs[i - 1].ver < e.ver
             /\ nd.kvs # <<>> => nd.max = nd.kvs[Len(nd.kvs)].ver
             /\ nd.kvs = <<>> => nd.max \in {0, c.max}
             \* exactly the sender's entries in (from, max]: no gap, nothing announced but not carried
             /\ {c.kv[k].ver : k \in {k \in DOMAIN c.kv : c.kv[k].ver > nd.from /\ c.kv[k].ver <= nd.max}}
                  = {nd.kvs[i].ver : i \in 1..Len(nd.kvs)}) ]_<<vars, hist>>

\* C12 -- quarantine, removal, no revival by stale gossip (action properties)
EvalStep(n) == LastAct.a = "Liveness" /\ LastAct.n = n
C12_Partition ==
  [][ Resetting \/ \A n \in Node : EvalStep(n) =>
        \A x \in (DOMAIN st'[n].ns) \ {n} :
           (x \in st'[n].live) # (x \in DOMAIN st'[n].dead) ]_<<vars, hist>>
\* nothing the node sends mentions a member that has been dead for more than half the grace period
Mentions(m) == (IF "digest" \in DOMAIN m THEN DOMAIN m.digest ELSE {})
               \cup (IF "delta" \in DOMAIN m THEN DOMAIN m.delta ELSE {})
C12_Quarantine ==
  [][ Resetting \/ ("out" \in DOMAIN LastAct =>
        LET n == LastAct.n IN
        \A x \in DOMAIN st'[n].dead :
           clock' > st'[n].dead[x] + Half => x \notin Mentions(LastAct.out)) ]_<<vars, hist>>
\* an evaluation leaves no member that has been dead for the full grace period
C12_Removal ==
  [][ Resetting \/ \A n \in Node : EvalStep(n) =>
        /\ \A x \in DOMAIN st'[n].dead : clock' < st'[n].dead[x] + DeadGrace
        /\ \A x \in DOMAIN st[n].dead :
             (clock >= st[n].dead[x] + DeadGrace /\ x \notin st'[n].live) => x \notin DOMAIN st'[n].ns ]_<<vars, hist>>
\* a removed member re-appears only through a digest heartbeat strictly above the remembered one,
\* never through catch-up, and is not live when it re-appears
C12_NoRevival ==
  [][ Resetting \/ \A n \in Node : \A x \in (DOMAIN st'[n].ns) \ (DOMAIN st[n].ns) :
        /\ x \notin st'[n].live
        /\ x \in DOMAIN st[n].gcd =>
             /\ LastAct.a = "Process" /\ LastAct.n = n
             /\ "digest" \in DOMAIN LastAct.msg
             /\ x \in DOMAIN LastAct.msg.digest
             /\ LastAct.msg.digest[x].hb > st[n].gcd[x] ]_<<vars, hist>>

\* C13 -- the watch channel after an evaluation
CurrentOf(s, n) == [x \in (s.live \cup {n}) \cap DOMAIN s.ns |-> s.ns[x].max]
ExactWatch(s, n) == [x \in {y \in DOMAIN CurrentOf(s, n) : PredHolds(s.ns[y])} |-> s.ns[x].max]
\* (b) publication rule: a new value, exact at that moment, iff live set or a live max version changed
C13_Publish ==
  [][ Resetting \/ \A n \in Node : EvalStep(n) =>
        IF CurrentOf(st'[n], n) # st[n].prev
        THEN st'[n].wseq = st[n].wseq + 1 /\ st'[n].watch = ExactWatch(st'[n], n)
        ELSE st'[n].wseq = st[n].wseq /\ st'[n].watch = st[n].watch ]_<<vars, hist>>
\* (a) exactness after every evaluation (scope: C12's step relation + plain writes, no tombstone GC)
C13_Exact ==
  [][ Resetting \/ \A n \in Node : EvalStep(n) => st'[n].watch = ExactWatch(st'[n], n) ]_<<vars, hist>>
\* the channel never changes outside an evaluation
C13_OnlyEval ==
  [][ Resetting \/ \A n \in Node : ~EvalStep(n) => (st'[n].watch = st[n].watch /\ st'[n].wseq = st[n].wseq) ]_<<vars, hist>>

\* C18 -- external catch-up
C18_Catchup ==
  [][ Resetting \/ (LastAct.a = "Catchup" =>
        LET n == LastAct.n  x == LastAct.x  sup == LastAct.kvs IN
        /\ st'[n].live = st[n].live
        /\ \A y \in (DOMAIN st[n].ns) \ {x} : y \in DOMAIN st'[n].ns /\ st'[n].ns[y] = st[n].ns[y]
        /\ (x \in DOMAIN st[n].gcd => x \notin DOMAIN st'[n].ns)
        /\ x \in DOMAIN st'[n].ns =>
             LET c2 == st'[n].ns[x]
                 c1 == IF x \in DOMAIN st[n].ns THEN st[n].ns[x] ELSE NewCopy IN
             /\ LexGe(c2, c1)
             /\ \/ (c2.kv = c1.kv /\ c2.gc = c1.gc /\ c2.max = c1.max)
                \/ /\ DOMAIN c2.kv = DOMAIN sup
                   /\ \A k \in DOMAIN sup :
                        IF k \in DOMAIN c1.kv /\ c1.kv[k].ver >= sup[k].ver
                        THEN c2.kv[k] = c1.kv[k]
                        ELSE c2.kv[k].val = sup[k].val /\ c2.kv[k].ver = sup[k].ver
                             /\ c2.kv[k].st = sup[k].st) ]_<<vars, hist>>

C18_NoPanic ==
  [][ Resetting \/ (LastAct.a = "Catchup" => ("panic" \notin DOMAIN LastAct /\ panic' = panic)) ]_<<vars, hist>>

\* C09 on observed byte-level deliveries ("Recv") and crafted datagrams ("Inject"): never a panic;
\* an undecodable datagram leaves the node exactly as it was
SameObservable(a, b) == /\ a.ns = b.ns /\ a.live = b.live /\ DOMAIN a.dead = DOMAIN b.dead
                        /\ a.watch = b.watch /\ a.wseq = b.wseq /\ a.cb = b.cb
C09_RecvNoPanic ==
  [][ Resetting \/ (LastAct.a \in {"Recv", "Inject"} => "panic" \notin DOMAIN LastAct) ]_<<vars, hist>>
C09_UndecodableNoop ==
  [][ Resetting \/ ((LastAct.a = "Recv" /\ ~LastAct.decoded) =>
        SameObservable(st'[LastAct.n], st[LastAct.n])) ]_<<vars, hist>>

\* C16 -- cluster isolation
C16_Isolation ==
  \A n \in Node :
    /\ \A x \in DOMAIN st[n].ns : Cluster[x] = Cluster[n]
    /\ \A x \in DOMAIN st[n].fd : Cluster[x] = Cluster[n]
    /\ \A x \in (DOMAIN st[n].gcd) \cup (DOMAIN st[n].dead) \cup st[n].live : Cluster[x] = Cluster[n]
C16_Reject ==
  [][ Resetting \/ ((LastAct.a = "Process" /\ LastAct.msg.t = "Syn" /\ LastAct.msg.cluster # Cluster[LastAct.n]) =>
        LET n == LastAct.n IN
        /\ LastAct.out.t = "Bad"
        /\ st'[n] = BumpHb(st[n], n)) ]_<<vars, hist>>

-------------------------------------------------------------------------------
\* C01 -- convergence.  A complete loss-free handshake a -> b as a FUNCTION on global states, built
\* from the same operators as the actions (SYN by a, SYN-ACK by b, ACK by a, applied by b).
\* choice selects one admissible delta when the budget is finite (CHOOSE: any fixed admissible order).
PickDelta(ns, dig, sched) == CHOOSE d \in Deltas(ns, dig, sched) : TRUE

HandshakeFn(g, a, b, now) ==
  \* g : Node -> node record (like st); returns the global state after the handshake
  LET synDigest == DigestFor(g[a], now)
      b0 == BumpHb(g[b], b)
      b1 == ReportDigest(b0, b, synDigest, now)
      d1 == PickDelta(b1.ns, synDigest, SchedOf(b1, now))
      ackDigest == DigestFor(b1, now)
      a0 == BumpHb(g[a], a)
      a1 == ReportDigest(a0, a, ackDigest, now)
      ra == ProcessDelta(a1, d1, now)
      d2 == PickDelta(ra.s.ns, ackDigest, SchedOf(ra.s, now))
      b2 == BumpHb(b1, b)
      rb == ProcessDelta(b2, d2, now)
  IN [g EXCEPT ![a] = ra.s, ![b] = rb.s]

\* data held by s about x that r could receive: x advertised by s (not scheduled for deletion at s)
\* and newer than r's copy (r learns x's existence from the digest exchange unless it remembers
\* having removed it)
\* scheduled-for-deletion set of a node record: the logged one when the record comes from a trace
SchedOfG(rec, now) == IF "sched" \in DOMAIN rec THEN rec.sched ELSE SchedOf(rec, now)
Deliverable(g, s, r, now) ==
  \E x \in (DOMAIN g[s].ns) \ SchedOfG(g[s], now) :
     /\ x \notin DOMAIN g[r].gcd
     /\ g[s].ns[x].max > (IF x \in DOMAIN g[r].ns THEN g[r].ns[x].max ELSE 0)
\* some copy at a or b strictly advanced its (GC watermark, max version)
Advanced(g, g2, n) ==
  \E x \in DOMAIN g2[n].ns :
     LET c2 == g2[n].ns[x]
         c1 == IF x \in DOMAIN g[n].ns THEN g[n].ns[x] ELSE NewCopy
     IN c2.gc > c1.gc \/ (c2.gc = c1.gc /\ c2.max > c1.max)
\* known finding KF-2: the reply's budget can be spent on a member the receiver omitted from its
\* digest because it has that member scheduled for deletion (the sender then treats it as never seen)
Hogged(g, s, r, now) ==
  \E x \in (DOMAIN g[r].ns) \cap SchedOfG(g[r], now) : x \in (DOMAIN g[s].ns) \ SchedOfG(g[s], now)

ProgressAt(g, a, b, now) ==
  LET g2 == HandshakeFn(g, a, b, now) IN
  (Deliverable(g, a, b, now) \/ Deliverable(g, b, a, now)) =>
     (Advanced(g, g2, a) \/ Advanced(g, g2, b) \/ Hogged(g, a, b, now) \/ Hogged(g, b, a, now))

C01_Progress == \A a, b \in Node : a # b => ProgressAt(st, a, b, clock)

\* bounded convergence: K fair rounds (every ordered pair once per round, canonical order) from ANY
\* reachable state bring every advertised copy to the most advanced copy of its member
Pairs == {p \in Node \X Node : p[1] # p[2]}
RECURSIVE RunPairs(_, _, _)
RunPairs(g, ps, now) ==
  IF ps = {} THEN g
  ELSE LET p == CHOOSE q \in ps : TRUE IN RunPairs(HandshakeFn(g, p[1], p[2], now), ps \ {p}, now)
RECURSIVE Rounds(_, _, _)
Rounds(g, k, now) == IF k = 0 THEN g ELSE Rounds(RunPairs(g, Pairs, now), k - 1, now)

Frontier(g, x) == MaxOf({0} \cup {g[n].ns[x].max : n \in {m \in Node : x \in DOMAIN g[m].ns}})
ConvergedG(g, now) ==
  \A n \in Node : \A x \in (DOMAIN g[n].ns) \ SchedOfG(g[n], now) :
     g[n].ns[x].max = Frontier(g, x)
C01_Converges == ConvergedG(Rounds(st, ConvRounds, clock), clock)
\* on real executions the driver appends a fair phase (complete loss-free handshakes between all
\* pairs, ConvRounds-independent count logged) and a "FairEnd" marker
C01_ConvergedReal ==
  [][ Resetting \/ (LastAct.a = "FairEnd" => ConvergedG(st', clock')) ]_<<vars, hist>>

-------------------------------------------------------------------------------
\* TLC plumbing: behaviour export, one line per generated transition
EmitEdge == PrintT("EDGE " \o ToJson([steps |-> hist', expect |-> [nodes |-> Views']]))

\* Focused export for configurations too large to replay every transition: only the deliveries that reach a
\* node holding a copy in the middle of a reset (watermark above max version: the state in which
\* check_delta_status has to tell a usable delta from one computed before the reset).
MidResetAt(n) == \E x \in DOMAIN st[n].ns : st[n].ns[x].gc > st[n].ns[x].max
FocusStep == LET e == hist'[Len(hist')] IN e.a = "Process" /\ e.n \in Node /\ MidResetAt(e.n)
EmitFocus == FocusStep => EmitEdge

\* ... and, for membership configurations with three nodes: only the evaluations that change the live set
LiveSwap(n) == (st[n].live \ st'[n].live # {}) /\ (st'[n].live \ st[n].live # {})
FocusLiveStep == LET e == hist'[Len(hist')] IN e.a = "Liveness" /\ st'[e.n].live # st[e.n].live
EmitFocusLive == FocusLiveStep => EmitEdge
NeverSwaps == [][\A n \in Node : ~LiveSwap(n)]_<<vars, hist>>   \* reachability probe (expected to FAIL)

===============================================================================
