SPECIFICATION Spec
CONSTANTS
  Node = {"n1", "n2", "n3"}
  Writers = {"n1"}
  Key = {"k1", "k2"}
  Val = {"a", "b"}
  Cluster <- MC_Cluster
  Grace = 2
  Advances = {2}
  Budget = 99
  MaxVer = 3
  MaxInflight = 1
  MaxClock = 2
  MaxHb = 0
  TrackHb = FALSE
  PhiN = 8
  PhiD = 1
  Window = 3
  MaxInterval = 10
  Prior = 5
  DeadGrace = 100
  PredKey = ""
  PredVal = ""
  Enable = {"api", "gc", "lose"}
VIEW View
INVARIANTS C02_NoResurrection C03_Integrity C04_NoPanic C05_OwnerAhead WellFormedCopies NoStaleTombstones C12_Sets C16_Isolation
PROPERTIES C04_Monotonic C04_FreshVersion C05_OwnUntouched C20_Callback
CONSTRAINT Bounded
CHECK_DEADLOCK FALSE
