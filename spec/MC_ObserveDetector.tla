---- MODULE MC_ObserveDetector ----
EXTENDS ObserveDetector
MC_Cluster == [n \in Node |-> "c"]
MC_Addr == [n \in Node |-> n]
====
