---- MODULE MC_ObserveDetector ----
EXTENDS ObserveDetector
MC_Cluster == [n \in Node |-> "c"]
====
