------------------------------- MODULE LocalKV -------------------------------
(***************************************************************************)
(* C06: the owner's own key-value namespace as a reference versioned map.  *)
(* One copy, a clock, tombstone GC and the read API.  Keys are strings;    *)
(* KeyChars gives each key's character sequence (TLC cannot look inside    *)
(* strings), from which prefix relation and key order are derived.         *)
(***************************************************************************)
EXTENDS NodeStateOps, SequencesExt, Json

CONSTANTS Keys,      \* set of key strings
          KeyChars,  \* [Keys \cup PrefixSet -> Seq(Nat)] character codes
          PrefixSet,  \* set of prefix strings to query
          Vals,      \* set of value strings
          Grace,     \* tombstone grace period in ticks
          Advances,  \* set of clock steps
          MaxLen     \* behaviour length bound (TLC level)

VARIABLES c,      \* the copy [hb, max, gc, kv]
          clock,
          hist    \* path variable (behaviour export only; hidden by VIEW)

vars == <<c, clock>>
View == vars

Init == c = NewCopy /\ clock = 0 /\ hist = <<>>

Step(a) == hist' = Append(hist, a)

Set(k, v)    == c' = LocalSet(c, k, v) /\ UNCHANGED clock
                /\ Step([a |-> "Set", n |-> "n1", k |-> k, v |-> v])
SetTtl(k, v) == c' = LocalSetTtl(c, k, v, clock) /\ UNCHANGED clock
                /\ Step([a |-> "SetTtl", n |-> "n1", k |-> k, v |-> v])
Delete(k)    == c' = LocalDelete(c, k, clock) /\ UNCHANGED clock
                /\ Step([a |-> "Delete", n |-> "n1", k |-> k])
DeleteTtl(k) == c' = LocalDeleteTtl(c, k, clock) /\ UNCHANGED clock
                /\ Step([a |-> "DeleteTtl", n |-> "n1", k |-> k])
Advance(d)   == clock' = clock + d /\ UNCHANGED c /\ Step([a |-> "Advance", d |-> d])
Gc           == c' = GcCopy(c, clock, Grace) /\ UNCHANGED clock
                /\ Step([a |-> "Gc", n |-> "n1"])

Next ==
  \/ \E k \in Keys, v \in Vals : Set(k, v) \/ SetTtl(k, v)
  \/ \E k \in Keys : Delete(k) \/ DeleteTtl(k)
  \/ \E d \in Advances : Advance(d)
  \/ Gc

Spec == Init /\ [][Next]_<<vars, hist>>

-------------------------------------------------------------------------------
\* The read API as the reference predicts it
IsPrefixOf(p, k) == IsPrefix(KeyChars[p], KeyChars[k])

\* lexicographic order on character sequences (byte order of UTF-8 = code point order)
RECURSIVE SeqLess(_, _)
SeqLess(s, t) ==
  IF t = <<>> THEN FALSE
  ELSE IF s = <<>> THEN TRUE
  ELSE IF Head(s) < Head(t) THEN TRUE
  ELSE IF Head(s) > Head(t) THEN FALSE
  ELSE SeqLess(Tail(s), Tail(t))
KeyLess(a, b) == SeqLess(KeyChars[a], KeyChars[b])

RECURSIVE SortKeys(_)
SortKeys(ks) ==
  IF ks = {} THEN <<>>
  ELSE LET k == CHOOSE x \in ks : \A y \in ks \ {x} : KeyLess(x, y)
       IN <<k>> \o SortKeys(ks \ {k})

Get(cc, k)      == IF Visible(cc, k) THEN <<cc.kv[k].val>> ELSE <<>>   \* Option as 0/1-seq
ContainsKey(cc, k) == Visible(cc, k)
KeyValues(cc)   == SortKeys(VisibleKeys(cc))
IterPrefix(cc, p) == SortKeys({k \in VisibleKeys(cc) : IsPrefixOf(p, k)})
Count(cc)       == Cardinality(VisibleKeys(cc))

Reads(cc) ==
  [get      |-> [k \in Keys |-> Get(cc, k)],
   contains |-> [k \in Keys |-> ContainsKey(cc, k)],
   kvs      |-> KeyValues(cc),
   prefix   |-> [p \in PrefixSet |-> IterPrefix(cc, p)],
   count    |-> Count(cc),
   max      |-> cc.max,
   gc       |-> cc.gc,
   kv       |-> cc.kv]

-------------------------------------------------------------------------------
\* Properties of the reference itself (what C06 states), checked by TLC on the model

TypeOK ==
  /\ c.max \in Nat /\ c.gc \in Nat
  /\ \A k \in DOMAIN c.kv : c.kv[k].ver \in 1..c.max /\ c.kv[k].st \in {"Set", "Del", "Ttl"}

\* a deleted key is invisible immediately; a TTL key stays visible until collected
DeleteInvisible == \A k \in DOMAIN c.kv : c.kv[k].st = "Del" => Get(c, k) = <<>>
TtlVisible      == \A k \in DOMAIN c.kv : c.kv[k].st = "Ttl" => Get(c, k) = <<c.kv[k].val>>
\* versions are unique and bounded by max; watermark below max
VersionsDistinct == \A j, k \in DOMAIN c.kv : j # k => c.kv[j].ver # c.kv[k].ver
GcBelowMax == c.gc <= c.max
\* no tombstone at or below the watermark survives on the owner
NoStaleTombstone == \A k \in DOMAIN c.kv : c.kv[k].st # "Set" => c.kv[k].ver > c.gc
\* prefix iteration: exactly the visible keys with that prefix, in key order
PrefixExact ==
  \A p \in PrefixSet :
     LET s == IterPrefix(c, p) IN
       /\ {s[i] : i \in 1..Len(s)} = {k \in DOMAIN c.kv : c.kv[k].st # "Del" /\ IsPrefixOf(p, k)}
       /\ \A i \in 1..(Len(s) - 1) : KeyLess(s[i], s[i + 1])

Inv == TypeOK /\ DeleteInvisible /\ TtlVisible /\ VersionsDistinct /\ GcBelowMax
       /\ NoStaleTombstone /\ PrefixExact

\* GC removes exactly the old-enough marked entries, never lowers the watermark, raises it to
\* the highest collected version; every write takes version max+1; deleting an absent key and
\* re-setting the current value are no-ops
LastAct == IF hist' # hist /\ Len(hist') > 0 THEN hist'[Len(hist')] ELSE [a |-> "none", k |-> ""]
GcExact ==
  [][ (LastAct.a = "Gc") =>
        /\ DOMAIN c'.kv = {k \in DOMAIN c.kv : ~(c.kv[k].st # "Set" /\ clock >= c.kv[k].ts + Grace)}
        /\ \A k \in DOMAIN c'.kv : c'.kv[k] = c.kv[k]
        /\ c'.gc >= c.gc
        /\ c'.gc = MaxOf({c.gc} \cup {c.kv[k].ver : k \in (DOMAIN c.kv) \ (DOMAIN c'.kv)})
        /\ c'.max = c.max ]_<<vars, hist>>
WriteFresh ==
  [][ (LastAct.a \in {"Set", "SetTtl", "Delete", "DeleteTtl"}) =>
        LET k == LastAct.k IN
        \/ c' = c
        \/ /\ c'.max = c.max + 1 /\ c'.kv[k].ver = c.max + 1 /\ c'.gc = c.gc
           /\ \A j \in (DOMAIN c.kv) \ {k} : j \in DOMAIN c'.kv /\ c'.kv[j] = c.kv[j] ]_<<vars, hist>>
DeleteAbsentNoop ==
  [][ (LastAct.a \in {"Delete", "DeleteTtl"} /\ LastAct.k \notin DOMAIN c.kv) => c' = c ]_<<vars, hist>>

-------------------------------------------------------------------------------
\* TLC plumbing: depth bound and behaviour export (one line per generated transition)
\* level of a state = 1 + length of the behaviour that reached it
Bound == TLCGet("level") <= MaxLen
EmitEdge == PrintT("EDGE " \o ToJson([steps |-> hist', expect |-> Reads(c')]))
===============================================================================
