---------------------------- MODULE PeerSelection ----------------------------
(***************************************************************************)
(* C17: which peers one gossip round contacts.                             *)
(*                                                                         *)
(* The input of a round is four address sets (peers, live, dead, seeds)    *)
(* with live and dead disjoint subsets of peers and seeds arbitrary (a     *)
(* seed may or may not be a known peer).  The random generator is          *)
(* nondeterminism: the specification does not say WHICH output is drawn,   *)
(* it states the set of outputs a round may produce, as the predicate      *)
(* Allowed(input, output).  Reference-model property (DESIGN 2.2, R3):     *)
(* the real select_nodes_for_gossip must only ever return allowed outputs. *)
(*                                                                         *)
(* Every input is an initial state.  ENUMERATION UP TO SYMMETRY: the       *)
(* predicate Allowed and the code look at addresses only through set       *)
(* membership, so an input is determined, up to renaming of addresses, by  *)
(* how many addresses have each of the 8 membership types                  *)
(*    {not a peer, idle peer, live peer, dead peer} x {not seed, seed}.    *)
(* Only canonical inputs are enumerated: along the fixed order AddrSeq the *)
(* type codes are non-decreasing.  Every input over the universe is a      *)
(* renaming of exactly one canonical input (C(n+7,7) canonical inputs for  *)
(* n addresses instead of 8^n; 1716 instead of 262144 for n = 6).  The     *)
(* harness realises each canonical input with several different concrete   *)
(* socket-address assignments.                                             *)
(*                                                                         *)
(* Behaviours:  Present (the round starts; the input is exported)  then    *)
(* Select (one allowed output is drawn).  The reachable "out" states are   *)
(* exactly the pairs (input, allowed output); the property clauses are     *)
(* invariants over them.                                                   *)
(***************************************************************************)
EXTENDS Naturals, Sequences, FiniteSets, TLC, Json

CONSTANTS AddrSeq,      \* the address universe as a sequence of distinct strings, e.g. <<"a1","a2">>
          GossipCount   \* how many pool members a round targets (3 in the code under test)

None == "none"          \* the absent optional (no address is called "none")
Addrs == {AddrSeq[i] : i \in 1..Len(AddrSeq)}

ASSUME /\ Cardinality(Addrs) = Len(AddrSeq)
       /\ None \notin Addrs
       /\ GossipCount \in Nat

VARIABLES peers, live, dead, seeds,   \* the input of the round
          pc,                         \* "in" -> "ready" -> "out"
          out                         \* [nodes : sequence of addresses, dead : opt, seed : opt]
input == <<peers, live, dead, seeds>>
vars == <<peers, live, dead, seeds, pc, out>>

Input == [peers |-> peers, live |-> live, dead |-> dead, seeds |-> seeds]
NoOut == [nodes |-> <<>>, dead |-> None, seed |-> None]

Range(s) == {s[k] : k \in 1..Len(s)}
Min(a, b) == IF a < b THEN a ELSE b

-------------------------------------------------------------------------------
\* The allowed outputs.  i = [peers, live, dead, seeds], o = [nodes, dead, seed].

\* the pool the regular targets come from: the live peers, or every known peer while none is live
Pool(i) == IF i.live = {} THEN i.peers ELSE i.live

\* as many distinct pool members as the pool allows, at most GossipCount
NodesOK(i, o) ==
  /\ Range(o.nodes) \subseteq Pool(i)
  /\ Cardinality(Range(o.nodes)) = Len(o.nodes)
  /\ Len(o.nodes) = Min(GossipCount, Cardinality(Pool(i)))

\* a dead peer is drawn with probability |dead| / (|live| + 1): never from an empty dead set,
\* always once that ratio reaches 1
DeadForced(i) == Cardinality(i.dead) >= Cardinality(i.live) + 1
DeadOK(i, o) ==
  /\ o.dead \in i.dead \cup {None}
  /\ i.dead = {} => o.dead = None
  /\ DeadForced(i) => o.dead # None

\* a seed is considered only when the round did not already target one, or when there are more
\* seeds than live peers (CASSANDRA-150: avoids partitions among seeds)
SeedConsidered(i, o) ==
  \/ Range(o.nodes) \cap i.seeds = {}
  \/ Cardinality(i.live) < Cardinality(i.seeds)
SeedOK(i, o) ==
  /\ o.seed \in i.seeds \cup {None}
  /\ ~SeedConsidered(i, o) => o.seed = None
  /\ i.seeds = {} => o.seed = None
  /\ SeedConsidered(i, o) /\ i.live = {} /\ i.seeds # {} => o.seed # None

Allowed(i, o) == NodesOK(i, o) /\ DeadOK(i, o) /\ SeedOK(i, o)

\* the candidate outputs Allowed filters: sequences (repetitions included) of up to GossipCount
\* addresses, optional dead, optional seed
RECURSIVE SeqsOfLen(_)
SeqsOfLen(n) == IF n = 0 THEN {<<>>}
                ELSE {Append(s, a) : s \in SeqsOfLen(n - 1), a \in Addrs}
NodeSeqs == UNION {SeqsOfLen(n) : n \in 0..GossipCount}
Opt == Addrs \cup {None}

-------------------------------------------------------------------------------
\* Inputs (up to symmetry)
TypeCode(a) ==
  (IF a \notin peers THEN 0 ELSE IF a \in live THEN 4 ELSE IF a \in dead THEN 6 ELSE 2)
  + (IF a \in seeds THEN 1 ELSE 0)
Canonical == \A k \in 1..(Len(AddrSeq) - 1) : TypeCode(AddrSeq[k]) <= TypeCode(AddrSeq[k + 1])

Init ==
  /\ peers \in SUBSET Addrs
  /\ live \in SUBSET peers
  /\ dead \in SUBSET (peers \ live)
  /\ seeds \in SUBSET Addrs
  /\ Canonical
  /\ pc = "in"
  /\ out = NoOut

Present == pc = "in" /\ pc' = "ready" /\ UNCHANGED <<input, out>>

Select ==
  /\ pc = "ready" /\ pc' = "out" /\ UNCHANGED input
  /\ \E ns \in NodeSeqs, d \in Opt, s \in Opt :
       /\ Allowed(Input, [nodes |-> ns, dead |-> d, seed |-> s])
       /\ out' = [nodes |-> ns, dead |-> d, seed |-> s]

Next == Present \/ Select
Spec == Init /\ [][Next]_vars

-------------------------------------------------------------------------------
\* C17 as stated, clause by clause; on the model these are consequences of Allowed, on the real
\* code (ObservePeerSelection) they are evaluated on what the code returned.

InputOK ==
  /\ live \subseteq peers /\ dead \subseteq peers /\ live \cap dead = {}
  /\ peers \subseteq Addrs /\ seeds \subseteq Addrs

\* at most three distinct peers drawn from the live peers (or from all known peers when none is
\* live), at most one dead peer from the dead set, at most one seed from the seed set
C17_Bounds ==
  pc = "out" =>
    /\ Len(out.nodes) <= GossipCount
    /\ Cardinality(Range(out.nodes)) = Len(out.nodes)
    /\ Range(out.nodes) \subseteq (IF live = {} THEN peers ELSE live)
    /\ out.dead \in dead \cup {None}
    /\ out.seed \in seeds \cup {None}

\* when no live peer is known and a seed exists, a seed is always contacted
C17_SeedAlways == pc = "out" /\ live = {} /\ seeds # {} => out.seed # None

\* when dead peers outnumber live ones, a dead peer is always contacted
C17_DeadAlways == pc = "out" /\ Cardinality(dead) > Cardinality(live) => out.dead # None

\* conformance with the reference: the output is one the specification allows
C17_Allowed == pc = "out" => Allowed(Input, out)

\* every input has at least one allowed output (the specification is satisfiable everywhere)
\* -- checked as: no "ready" state is a dead end, see property below
SomeOutput == pc = "ready" => \E ns \in NodeSeqs, d \in Opt, s \in Opt :
                                 Allowed(Input, [nodes |-> ns, dead |-> d, seed |-> s])

-------------------------------------------------------------------------------
\* TLC plumbing: one exported line per input (the Present step)
EmitEdge ==
  (pc = "in") => PrintT("EDGE " \o ToJson([peers |-> peers, live |-> live, dead |-> dead,
                                            seeds |-> seeds]))
===============================================================================
